package c19

import (
	"context"
	"crypto/sha256"
	"encoding/json"
	"errors"
	"fmt"
	"os"
	"path/filepath"
	"strings"
	"syscall"
	"time"

	"github.com/fsnotify/fsnotify"
	"github.com/rs/zerolog"

	"github.com/dadrus/heimdall/internal/config"
	"github.com/dadrus/heimdall/internal/rules"
	rulecfg "github.com/dadrus/heimdall/internal/rules/config"
	"github.com/dadrus/heimdall/internal/rules/mechanisms"
	"github.com/dadrus/heimdall/internal/rules/provider/filesystem"
	"github.com/dadrus/heimdall/internal/rules/rule"

	"github.com/dadrus/heimdall/verif/engine"
	"github.com/dadrus/heimdall/verif/hx"
)

// RSCase is the replay format of part 2.
type RSCase struct {
	Part     string `json:"part"`     // "ruleset"
	Entry    string `json:"entry"`    // OnCreated | OnUpdated | fs-provider | fs-provider-stat-race
	Factory  string `json:"factory"`  // scripted | real
	Format   string `json:"format"`   // yaml | json
	Mutation string `json:"mutation"` // description
	Text     string `json:"text"`
}

func (r *RSCase) key() string {
	h := sha256.Sum256([]byte(r.Text))

	return fmt.Sprintf("rs|%s|%s|%s|%s|%x", entryName(r.Entry), r.Factory, r.Format, r.Mutation, h[:6])
}

func entryName(e string) string {
	switch e {
	case "OnCreated", "OnUpdated":
		return "ruleSetProcessor." + e
	case "fs-provider":
		return "filesystem.Provider.ruleSetsChanged"
	default:
		return "filesystem.Provider.ruleSetsChanged(file removed before stat)"
	}
}

// ruleSetDoc is the valid rule set the grammar works on. srcPath distinguishes the rule sets.
func ruleSetDoc(id, pathPrefix string) *node {
	return nMap(
		"version", nStr(rulecfg.CurrentRuleSetVersion),
		"name", nStr("set-"+id),
		"rules", nList(nMap(
			"id", nStr(id),
			"allow_encoded_slashes", nStr("off"),
			"match", nMap(
				"routes", nList(nMap(
					"path", nStr(pathPrefix+"/:id/x"),
					"path_params", nList(nMap("name", nStr("id"), "type", nStr("glob"), "value", nStr("*"))),
				)),
				"backtracking_enabled", nBool(false),
				"scheme", nStr("http"),
				"methods", nList(nStr("GET"), nStr("POST")),
				"hosts", nList(nMap("type", nStr("exact"), "value", nStr("h.local"))),
			),
			"forward_to", nMap(
				"host", nStr("up.local:8080"),
				"rewrite", nMap("scheme", nStr("https"), "strip_path_prefix", nStr(pathPrefix), "add_path_prefix", nStr("/api"),
					"strip_query_parameters", nList(nStr("a"))),
			),
			"execute", nList(
				nMap("authenticator", nStr("anon"), "config", nMap("subject", nStr("anon1"))),
				nMap("authenticator", nStr("jwt_a"), "config", nMap("assertions", nMap(
					"issuers", nList(nStr("iss")), "audience", nList(nStr("aud")),
					"scopes", nMap("matching_strategy", nStr("wildcard"), "values", nList(nStr("a.*"), nStr("b")))))),
				nMap("authorizer", nStr("cel_z"), "if", nStr("Subject.ID != ''"),
					"config", nMap("expressions", nList(nMap("expression", nStr("true"), "message", nStr("no"))))),
				nMap("authorizer", nStr("remote_z"), "config", nMap("payload", nStr("{}"), "values", nMap("a", nStr("b")), "cache_ttl", nStr("1s"))),
				nMap("contextualizer", nStr("ctx"), "config", nMap("values", nMap("k", nStr("v")), "forward_headers", nList(nStr("X-A")))),
				nMap("finalizer", nStr("hdr"), "config", nMap("headers", nMap("X-U", nStr("{{ .Subject.ID }}")))),
				nMap("finalizer", nStr("jwt_f"), "config", nMap("ttl", nStr("10s"), "claims", nStr(`{"a":"b"}`))),
			),
			"on_error", nList(
				nMap("error_handler", nStr("www"), "if", nStr("type(Error) == authentication_error"), "config", nMap("realm", nStr("r"))),
			),
		)),
	)
}

func scriptedFactory() mechanisms.MechanismFactory {
	return &hx.Factory{Script: hx.AllowAll{}, Specs: map[string]hx.Step{
		"anon":     {Kind: "authenticator", ID: "anon"},
		"jwt_a":    {Kind: "authenticator", ID: "jwt_a"},
		"cel_z":    {Kind: "authorizer", ID: "cel_z"},
		"remote_z": {Kind: "authorizer", ID: "remote_z"},
		"ctx":      {Kind: "contextualizer", ID: "ctx"},
		"hdr":      {Kind: "finalizer", ID: "hdr"},
		"jwt_f":    {Kind: "finalizer", ID: "jwt_f"},
		"www":      {Kind: "error_handler", ID: "www"},
	}}
}

// realFactory is mechanisms.NewMechanismFactory over a small real catalogue.
func realFactory(dir string) (mechanisms.MechanismFactory, error) {
	ks := filepath.Join(dir, "catalogue-signer.pem")
	if err := writeFile(ks, pki(false).a.PEM); err != nil {
		return nil, err
	}

	m := func(id, typ string, conf map[string]any) config.Mechanism {
		if conf == nil {
			conf = map[string]any{}
		}

		return config.Mechanism{ID: id, Type: typ, Config: conf}
	}

	conf := &config.Configuration{Prototypes: &config.MechanismPrototypes{
		Authenticators: []config.Mechanism{
			m("anon", "anonymous", nil),
			m("jwt_a", "jwt", map[string]any{"jwks_endpoint": map[string]any{"url": "http://idp.local/jwks"}, "assertions": map[string]any{"issuers": []string{"iss"}}}),
		},
		Authorizers: []config.Mechanism{
			m("cel_z", "cel", map[string]any{"expressions": []map[string]any{{"expression": "true"}}}),
			m("allow_z", "allow", nil),
			m("remote_z", "remote", map[string]any{"endpoint": map[string]any{"url": "http://authz.local/check"}, "payload": "{}"}),
		},
		Contextualizers: []config.Mechanism{
			m("ctx", "generic", map[string]any{"endpoint": map[string]any{"url": "http://ctx.local/"}}),
		},
		Finalizers: []config.Mechanism{
			m("hdr", "header", map[string]any{"headers": map[string]any{"X-User": "{{ .Subject.ID }}"}}),
			m("jwt_f", "jwt", map[string]any{"signer": map[string]any{"key_store": map[string]any{"path": ks}}}),
		},
		ErrorHandlers: []config.Mechanism{
			m("www", "www_authenticate", map[string]any{"realm": "x"}),
			m("redir", "redirect", map[string]any{"to": "http://x.local/login"}),
		},
	}}

	return mechanisms.NewMechanismFactory(conf, zerolog.Nop(), newRecWatcher(), &khRegistry{}, nopObserver{})
}

// rsFixture is processor + repository with the previously loaded state (source "base").
type rsFixture struct {
	kind string
	mode config.OperationMode
	mf   mechanisms.MechanismFactory
	repo rule.Repository
	proc rule.SetProcessor
	prov *filesystem.Provider
	dir  string
	lb   *logBuf
}

func parse(text string) (*rulecfg.RuleSet, error) {
	rs, err := rulecfg.ParseRules("application/yaml", strings.NewReader(text), false)
	if err != nil {
		return nil, err
	}

	h := sha256.Sum256([]byte(text))
	rs.Hash = h[:]

	return rs, nil
}

func newRSFixture(kind string, mf mechanisms.MechanismFactory, dir string, withProvider bool) (*rsFixture, error) {
	f := &rsFixture{kind: kind, mf: mf, mode: config.DecisionMode, lb: &logBuf{}}
	if kind == "real" {
		f.mode = config.ProxyMode
	}

	rf, err := rules.NewRuleFactory(mf, &config.Configuration{}, f.mode, zerolog.Nop())
	if err != nil {
		return nil, err
	}

	f.repo = rules.VerifNewRepository(rf)
	f.proc = rules.NewRuleSetProcessor(f.repo, rf)

	if !withProvider {
		rs, err := parse(ruleSetDoc("base", "/base").YAML())
		if err != nil {
			return nil, fmt.Errorf("base rule set: %w", err)
		}

		rs.Source = "base"

		if err = f.proc.OnCreated(rs); err != nil {
			return nil, fmt.Errorf("base rule set: %w", err)
		}

		return f, f.probe("/base", "base")
	}

	f.dir = filepath.Join(dir, "rules-"+kind)
	_ = os.RemoveAll(f.dir)

	if err = os.MkdirAll(f.dir, 0o700); err != nil {
		return nil, err
	}

	if err = writeFile(filepath.Join(f.dir, "base.yaml"), []byte(ruleSetDoc("base", "/base").YAML())); err != nil {
		return nil, err
	}

	f.prov, err = filesystem.NewProvider(&config.Configuration{Providers: config.RuleProviders{
		FileSystem: map[string]any{"src": f.dir, "watch": false},
	}}, f.proc, f.lb.logger())
	if err != nil {
		return nil, err
	}

	if err = f.prov.Start(context.Background()); err != nil {
		return nil, err
	}

	return f, f.probe("/base", "base")
}

// probe answers a request for prefix and expects rule wantID ("" = no rule).
func (f *rsFixture) probe(prefix, wantID string) error {
	done := make(chan error, 1)

	go func() {
		ru, err := f.repo.FindRule(hx.NewCtx("GET", "http://h.local"+prefix+"/1/x"))

		switch {
		case wantID == "" && err == nil:
			done <- fmt.Errorf("a rule (%s) answers for %s although none is expected", ru.ID(), prefix)
		case wantID == "":
			done <- nil
		case err != nil:
			done <- fmt.Errorf("no rule answers for %s: %w", prefix, err)
		case ru.ID() != wantID:
			done <- fmt.Errorf("rule %s answers for %s instead of %s", ru.ID(), prefix, wantID)
		default:
			done <- nil
		}
	}()

	select {
	case err := <-done:
		return err
	case <-time.After(120 * time.Second):
		return errors.New("repository does not answer (blocked)")
	}
}

// processorCase runs one document text through ParseRules -> OnCreated / OnUpdated.
//
//nolint:cyclop,funlen
func processorCase(c *engine.Ctx, f **rsFixture, mk func() (*rsFixture, error), cs *RSCase, valid bool, replay bool) {
	entry := entryName(cs.Entry)

	progress(cs.key(), cs)
	c.Eval(1)

	if !valid {
		c.Nontrivial(cs.key())
	}

	if *f == nil {
		var err error

		if *f, err = mk(); err != nil {
			viol(c, "harness/ruleset/cannot-build-fixture", err.Error(), cs)
			*f = nil

			return
		}
	}

	fx := *f
	broken := func(sig, sum string) {
		viol(c, sig, sum, cs)
		*f = nil
	}

	var (
		rs  *rulecfg.RuleSet
		err error
	)

	if pi := guard(func() { rs, err = parse(cs.Text) }); pi != nil {
		c.Outcome("config.ParseRules: PANIC in " + pi.sig())
		viol(c, "config.ParseRules/panic/"+pi.sig(), fmt.Sprintf("ParseRules of [%s] %s document: %s", cs.Mutation, cs.Format, pi), cs)

		return
	}

	if replay {
		fmt.Printf("replay: ParseRules -> err=%v\n", err)
	}

	if err != nil {
		switch {
		case errors.Is(err, rulecfg.ErrEmptyRuleSet):
			c.Outcome("config.ParseRules: empty rule set")
		case strings.Contains(err.Error(), "failed validating"):
			c.Outcome("config.ParseRules: rejected by struct validation")
		case strings.Contains(err.Error(), "failed decoding"):
			c.Outcome("config.ParseRules: rejected by decoding (type mismatch / unknown key)")
		default:
			c.Outcome("config.ParseRules: rejected by the YAML parser")
		}

		if perr := fx.probe("/base", "base"); perr != nil {
			broken(entry+"/previous-state-lost-after-rejected-document", perr.Error())
		}

		return
	}

	rs.Source = "case"

	if cs.Entry == "OnUpdated" {
		old, _ := parse(ruleSetDoc("old", "/case").YAML())
		old.Source = "case"

		if err = fx.proc.OnCreated(old); err != nil {
			broken("harness/ruleset/valid-rule-set-rejected", err.Error())

			return
		}
	}

	var perr error

	pi := guard(func() {
		if cs.Entry == "OnUpdated" {
			perr = fx.proc.OnUpdated(rs)
		} else {
			perr = fx.proc.OnCreated(rs)
		}
	})

	if replay {
		fmt.Printf("replay: %s -> panic=%v err=%v\n", entry, pi != nil, perr)
	}

	if pi != nil {
		c.Outcome(entry + ": PANIC in " + pi.sig())
		viol(c, entry+"/panic/"+pi.sig(),
			fmt.Sprintf("%s (%s catalogue) of a parsed and validated rule set, mutation [%s], %s text: %s", entry, cs.Factory, cs.Mutation, cs.Format, pi), cs)
	}

	// the previously loaded state must still answer
	if e := fx.probe("/base", "base"); e != nil {
		broken(entry+"/previous-state-lost", fmt.Sprintf("mutation [%s]: %v", cs.Mutation, e))

		return
	}

	rejected := pi != nil || perr != nil

	switch {
	case rejected && cs.Entry == "OnUpdated":
		if e := fx.probe("/case", "old"); e != nil {
			broken(entry+"/previous-version-of-the-rule-set-lost-after-rejected-update", fmt.Sprintf("mutation [%s] (err=%v): %v", cs.Mutation, perr, e))

			return
		}

		if pi == nil {
			c.Outcome(entry + ": rejected with an error, previous version answers")
		}
	case rejected:
		if e := fx.probe("/case", ""); e != nil {
			broken(entry+"/rejected-rule-set-partially-applied", fmt.Sprintf("mutation [%s] (err=%v): %v", cs.Mutation, perr, e))

			return
		}

		if pi == nil {
			c.Outcome(entry + ": rejected with an error, nothing applied")
		}
	case valid:
		c.Outcome(entry + ": complete valid document applied")
	default:
		c.Outcome(entry + ": mutated document is itself acceptable: applied")
	}

	// a second, valid change must still be applied
	next, _ := parse(ruleSetDoc("next", "/case").YAML())
	next.Source = "case"

	var nerr error

	existing := cs.Entry == "OnUpdated" || !rejected
	pi2 := guard(func() {
		if existing {
			nerr = fx.proc.OnUpdated(next)
		} else {
			nerr = fx.proc.OnCreated(next)
		}
	})

	if pi2 != nil || nerr != nil {
		broken(entry+"/valid-change-not-applied-afterwards", fmt.Sprintf("mutation [%s]: following valid rule set: panic=%v err=%v", cs.Mutation, pi2, nerr))

		return
	}

	if e := fx.probe("/case", "next"); e != nil {
		broken(entry+"/valid-change-not-applied-afterwards", fmt.Sprintf("mutation [%s]: %v", cs.Mutation, e))

		return
	}

	if derr := fx.proc.OnDeleted(next); derr != nil {
		broken("harness/ruleset/cleanup-failed", derr.Error())

		return
	}

	if pi != nil {
		*f = nil
	}
}

// providerCase runs one document text through the file_system provider's event callback.
func providerCase(c *engine.Ctx, f **rsFixture, mk func() (*rsFixture, error), cs *RSCase, valid bool, replay bool) {
	entry := entryName(cs.Entry)

	progress(cs.key(), cs)
	c.Eval(1)

	if !valid {
		c.Nontrivial(cs.key())
	}

	if *f == nil {
		var err error

		if *f, err = mk(); err != nil {
			viol(c, "harness/ruleset/cannot-build-fixture", err.Error(), cs)
			*f = nil

			return
		}
	}

	fx := *f
	broken := func(sig, sum string) {
		viol(c, sig, sum, cs)
		*f = nil
	}

	file := filepath.Join(fx.dir, "case.yaml")
	fire := func(op fsnotify.Op) (*panicInfo, error) {
		var err error

		pi := guard(func() { err = fx.prov.VerifC19RuleSetsChanged(fsnotify.Event{Name: file, Op: op}) })

		return pi, err
	}

	if err := writeFile(file, []byte(cs.Text)); err != nil {
		c.Infra("%v", err)

		return
	}

	fx.lb.take()
	pi, err := fire(fsnotify.Write)
	logged := fx.lb.take()

	if replay {
		fmt.Printf("replay: %s -> panic=%v err=%v\n", entry, pi != nil, err)
	}

	if pi != nil {
		c.Outcome(entry + ": PANIC in " + pi.sig())
		viol(c, entry+"/panic/"+pi.sig(),
			fmt.Sprintf("file_system provider event callback (%s catalogue), file content = mutation [%s], %s text: %s", cs.Factory, cs.Mutation, cs.Format, pi), cs)
	}

	if e := fx.probe("/base", "base"); e != nil {
		broken(entry+"/previous-state-lost", fmt.Sprintf("mutation [%s]: %v", cs.Mutation, e))

		return
	}

	switch {
	case pi != nil:
	case err != nil && !strings.Contains(logged, `"level":"warn"`):
		broken(entry+"/rejection-not-logged", fmt.Sprintf("mutation [%s]: err=%v log=%q", cs.Mutation, err, logged))

		return
	case err != nil:
		if e := fx.probe("/case", ""); e != nil {
			broken(entry+"/rejected-rule-set-partially-applied", fmt.Sprintf("mutation [%s] (err=%v): %v", cs.Mutation, err, e))

			return
		}

		c.Outcome(entry + ": rejection logged, nothing applied")
	case valid:
		c.Outcome(entry + ": complete valid document applied")
	default:
		c.Outcome(entry + ": accepted (mutated document is itself acceptable or empty)")
	}

	// a second, valid change must still be applied, then the file is removed again
	if err = writeFile(file, []byte(ruleSetDoc("next", "/case").YAML())); err != nil {
		c.Infra("%v", err)

		return
	}

	pi2, err2 := fire(fsnotify.Write)
	if pi2 != nil || err2 != nil {
		broken(entry+"/valid-change-not-applied-afterwards", fmt.Sprintf("mutation [%s]: following valid file: panic=%v err=%v", cs.Mutation, pi2, err2))

		return
	}

	if e := fx.probe("/case", "next"); e != nil {
		broken(entry+"/valid-change-not-applied-afterwards", fmt.Sprintf("mutation [%s]: %v", cs.Mutation, e))

		return
	}

	_ = os.Remove(file)

	if pi3, err3 := fire(fsnotify.Remove); pi3 != nil || err3 != nil {
		broken(entry+"/removal-not-applied", fmt.Sprintf("mutation [%s]: panic=%v err=%v", cs.Mutation, pi3, err3))

		return
	}

	if e := fx.probe("/case", ""); e != nil {
		broken(entry+"/removal-not-applied", e.Error())

		return
	}

	if pi != nil {
		*f = nil
	}
}

// statRaceCase: the rule file disappears between the provider's parse and its os.Stat. A named
// pipe makes the interleaving deterministic: the provider blocks reading until the writer side
// is closed, and the writer unlinks the name before closing.
func statRaceCase(c *engine.Ctx, kind string, mf mechanisms.MechanismFactory, dir string, replay bool) {
	cs := &RSCase{Part: "ruleset", Entry: "fs-provider-stat-race", Factory: kind, Format: "yaml", Mutation: "valid document; file removed after it was read",
		Text: ruleSetDoc("case", "/case").YAML()}
	entry := entryName(cs.Entry)

	progress(cs.key(), cs)
	c.Eval(1)
	c.Nontrivial(cs.key())

	fx, err := newRSFixture(kind, mf, dir, true)
	if err != nil {
		viol(c, "harness/ruleset/cannot-build-fixture", err.Error(), cs)

		return
	}

	file := filepath.Join(fx.dir, "case.yaml")
	_ = os.Remove(file)

	if err = syscall.Mkfifo(file, 0o600); err != nil {
		c.NotExhaustive("named pipes are not available: file-removed-before-stat case not run")

		return
	}

	type res struct {
		pi  *panicInfo
		err error
	}

	done := make(chan res, 1)

	go func() {
		var perr error

		pi := guard(func() { perr = fx.prov.VerifC19RuleSetsChanged(fsnotify.Event{Name: file, Op: fsnotify.Create}) })
		done <- res{pi, perr}
	}()

	w, err := os.OpenFile(file, os.O_WRONLY, 0) // returns when the provider has opened the file
	if err != nil {
		c.Infra("fifo: %v", err)

		return
	}

	_, _ = w.WriteString(cs.Text)
	_ = os.Remove(file) // the file disappears after its content was handed over ...
	_ = w.Close()       // ... and before the reader sees the end of it

	var r res

	select {
	case r = <-done:
	case <-time.After(120 * time.Second):
		viol(c, entry+"/callback-does-not-return", "provider callback blocked", cs)

		return
	}

	if replay {
		fmt.Printf("replay: %s -> panic=%v err=%v\n", entry, r.pi, r.err)
	}

	switch {
	case r.pi != nil:
		c.Outcome(entry + ": PANIC in " + r.pi.sig())
		viol(c, "filesystem.Provider.ruleSetsChanged/panic/"+r.pi.sig()+"/file-removed-between-parse-and-stat",
			"file_system provider event callback: the rule file was removed after its content was read and before os.Stat: "+r.pi.String(), cs)
	case r.err != nil:
		c.Outcome(entry + ": error returned")
	default:
		c.Outcome(entry + ": handled without a panic, no error reported")
	}

	if e := fx.probe("/base", "base"); e != nil {
		viol(c, entry+"/previous-state-lost", e.Error(), cs)

		return
	}

	// the callback keeps working
	if err = writeFile(file, []byte(ruleSetDoc("next", "/case").YAML())); err != nil {
		c.Infra("%v", err)

		return
	}

	var err2 error

	pi2 := guard(func() { err2 = fx.prov.VerifC19RuleSetsChanged(fsnotify.Event{Name: file, Op: fsnotify.Write}) })
	if pi2 != nil || err2 != nil || fx.probe("/case", "next") != nil {
		viol(c, entry+"/valid-change-not-applied-afterwards", fmt.Sprintf("panic=%v err=%v probe=%v", pi2, err2, fx.probe("/case", "next")), cs)
	}
}

// ---------------------------------------------------------------------------

type rsDoc struct {
	mutation string
	format   string
	text     string
	valid    bool
}

// ruleSetDocs enumerates the documents of part 2.
func ruleSetDocs() []rsDoc {
	base := ruleSetDoc("case", "/case")

	docs := []rsDoc{
		{"none (valid document)", "yaml", base.YAML(), true},
		{"none (valid document)", "json", base.JSON(), true},
	}

	for _, m := range mutations(base) {
		docs = append(docs, rsDoc{m.String(), "yaml", m.doc.YAML(), false}, rsDoc{m.String(), "json", m.doc.JSON(), false})
	}

	for _, f := range []struct{ name, text string }{{"yaml", base.YAML()}, {"json", base.JSON()}} {
		for n := 0; n < len(f.text); n++ {
			docs = append(docs, rsDoc{fmt.Sprintf("truncated at offset %d", n), f.name, f.text[:n], false})
		}
	}

	// a few documents outside the grammar that the suspects name explicitly
	extra := []struct{ name, text string }{
		{"execute step without mechanism key", `{"version":"1alpha4","rules":[{"id":"x","match":{"routes":[{"path":"/case/**"}]},"execute":[{"config":{"a":"b"}}]}]}`},
		{"execute step is an empty map", `{"version":"1alpha4","rules":[{"id":"x","match":{"routes":[{"path":"/case/**"}]},"execute":[{}]}]}`},
		{"yaml anchors and merge keys", "version: \"1alpha4\"\nrules:\n- id: x\n  match: &m\n    routes:\n    - path: /case/**\n  execute:\n  - &a {authenticator: anon}\n  - <<: *a\n"},
		{"yaml alias to itself", "version: \"1alpha4\"\nrules: &r\n- id: x\n  match: {routes: [{path: /case/**}]}\n  execute: *r\n"},
		{"non-string map keys", "version: \"1alpha4\"\nrules:\n- id: x\n  match: {routes: [{path: /case/**}]}\n  execute:\n  - {authenticator: anon, config: {1: a, true: b, null: c, [x]: d}}\n"},
		{"binary and timestamp scalars", "version: \"1alpha4\"\nrules:\n- id: 2001-12-14\n  match: {routes: [{path: !!binary aGVsbG8=}]}\n  execute:\n  - {authenticator: !!binary YW5vbg==}\n"},
		{"second yaml document", base.YAML() + "---\n" + "7\n"},
		{"path without leading slash", strings.Replace(base.JSON(), `"/case/:id/x"`, `"case"`, 1)},
		{"path with empty wildcard names", strings.Replace(base.JSON(), `"/case/:id/x"`, `"/case/:/*"`, 1)},
		{"invalid regex host", strings.Replace(base.JSON(), `{"type":"exact","value":"h.local"}`, `{"type":"regex","value":"(["}`, 1)},
		{"invalid glob path parameter", strings.Replace(base.JSON(), `"value":"*"`, `"value":"[a-"`, 1)},
		{"invalid cel condition", strings.Replace(base.JSON(), `"Subject.ID != ''"`, `"Subject.ID +"`, 1)},
		{"non-bool cel condition", strings.Replace(base.JSON(), `"Subject.ID != ''"`, `"Subject.ID"`, 1)},
		{"invalid template", strings.Replace(base.JSON(), `{{ .Subject.ID }}`, `{{ .Subject.ID `, 1)},
		{"unknown version", strings.Replace(base.JSON(), `"1alpha4"`, `"1alpha3"`, 1)},
		// rejected by the repository only (after the rules of the previous version were removed from the working copy)
		{"path with a segment after a free wildcard", strings.Replace(base.JSON(), `"/case/:id/x"`, `"/case/**/x"`, 1)},
		{"path owned by another rule set", strings.Replace(base.JSON(), `"/case/:id/x"`, `"/base/:id/x"`, 1)},
		// rule specific config with a single non-string key (decoded by yaml as map[any]any)
		{"config with an integer key", "version: \"1alpha4\"\nrules:\n- id: x\n  match: {routes: [{path: /case/**}]}\n  execute:\n  - {authenticator: anon, config: {401: challenge}}\n"},
		{"config with a boolean key", "version: \"1alpha4\"\nrules:\n- id: x\n  match: {routes: [{path: /case/**}]}\n  execute:\n  - {authenticator: anon, config: {true: b}}\n"},
		{"error handler config with an integer key", "version: \"1alpha4\"\nrules:\n- id: x\n  match: {routes: [{path: /case/**}]}\n  execute:\n  - {authenticator: anon}\n  on_error:\n  - {error_handler: www, config: {401: challenge}}\n"},
	}
	for _, e := range extra {
		docs = append(docs, rsDoc{e.name, "extra", e.text, false})
	}

	return docs
}

const rsChunk = 250

func ruleSetUnits(c *engine.Ctx) []unit {
	docs := ruleSetDocs()

	var units []unit

	for _, kind := range []string{"scripted", "real"} {
		for _, entry := range []string{"OnCreated", "OnUpdated", "fs-provider"} {
			for i := 0; i < len(docs); i += rsChunk {
				chunk := docs[i:min(i+rsChunk, len(docs))]
				units = append(units, unit{id: fmt.Sprintf("rs|%s|%s|docs %d..%d", entry, kind, i, i+len(chunk)-1), run: func(c *engine.Ctx, dir string) {
					runRSChunk(c, kind, entry, chunk, dir)
				}})
			}
		}

		units = append(units, unit{id: "rs|fs-provider-stat-race|" + kind, run: func(c *engine.Ctx, dir string) {
			mf, err := factoryOf(kind, dir)
			if err != nil {
				viol(c, "harness/ruleset/cannot-build-catalogue", err.Error(), nil)

				return
			}

			statRaceCase(c, kind, mf, dir, false)
		}})
	}

	if c.Shard == 0 {
		c.Count("ruleset_documents", int64(len(docs)))
		c.Count("ruleset_document_nodes", int64(countNodes(ruleSetDoc("case", "/case"))))
	}

	return units
}

func factoryOf(kind, dir string) (mechanisms.MechanismFactory, error) {
	if kind == "real" {
		return realFactory(dir)
	}

	return scriptedFactory(), nil
}

func runRSChunk(c *engine.Ctx, kind, entry string, docs []rsDoc, dir string) {
	mf, err := factoryOf(kind, dir)
	if err != nil {
		viol(c, "harness/ruleset/cannot-build-catalogue", err.Error(), nil)

		return
	}

	var fx *rsFixture

	mk := func() (*rsFixture, error) { return newRSFixture(kind, mf, dir, entry == "fs-provider") }

	for _, d := range docs {
		cs := &RSCase{Part: "ruleset", Entry: entry, Factory: kind, Format: d.format, Mutation: d.mutation, Text: d.text}
		if skipped(cs.key()) {
			continue
		}

		if c.Expired() {
			return
		}

		if entry == "fs-provider" {
			providerCase(c, &fx, mk, cs, d.valid, false)
		} else {
			processorCase(c, &fx, mk, cs, d.valid, false)
		}

		if !d.valid && c.WantSample() && strings.Contains(d.mutation, "execute[1]") {
			c.Sample(map[string]any{"entry": entryName(entry), "catalogue": kind, "mutation": d.mutation, "format": d.format})
		}
	}
}

func replayRuleSet(c *engine.Ctx, raw json.RawMessage) {
	var cs RSCase
	if err := json.Unmarshal(raw, &cs); err != nil {
		c.Infra("bad replay: %v", err)

		return
	}

	dir, err := scratchDir("c19-replay-")
	if err != nil {
		c.Infra("%v", err)

		return
	}

	defer os.RemoveAll(dir)

	mf, err := factoryOf(cs.Factory, dir)
	if err != nil {
		c.Infra("%v", err)

		return
	}

	fmt.Printf("replay: %s, %s catalogue, mutation [%s], document:\n%s\n", entryName(cs.Entry), cs.Factory, cs.Mutation, cs.Text)

	var fx *rsFixture

	switch cs.Entry {
	case "fs-provider-stat-race":
		statRaceCase(c, cs.Factory, mf, dir, true)
	case "fs-provider":
		providerCase(c, &fx, func() (*rsFixture, error) { return newRSFixture(cs.Factory, mf, dir, true) }, &cs, false, true)
	default:
		processorCase(c, &fx, func() (*rsFixture, error) { return newRSFixture(cs.Factory, mf, dir, false) }, &cs, false, true)
	}
}
