package c19

import (
	"bytes"
	"encoding/json"
	"fmt"
	"net/url"
	"sort"
	"strconv"
	"strings"
)

// node is an ordered document tree (maps keep their key order and may carry a key twice).
type node struct {
	kind  byte // 'n' null, 'b' bool, 'i' int, 's' string, 'l' list, 'm' map
	b     bool
	i     int
	s     string
	items []*node
	keys  []string
}

func nNull() *node            { return &node{kind: 'n'} }
func nBool(b bool) *node      { return &node{kind: 'b', b: b} }
func nInt(i int) *node        { return &node{kind: 'i', i: i} }
func nStr(s string) *node     { return &node{kind: 's', s: s} }
func nList(it ...*node) *node { return &node{kind: 'l', items: it} }

// nMap builds a map from alternating keys and values.
func nMap(kv ...any) *node {
	n := &node{kind: 'm'}

	for i := 0; i+1 < len(kv); i += 2 {
		n.keys = append(n.keys, kv[i].(string))    //nolint:forcetypeassert
		n.items = append(n.items, kv[i+1].(*node)) //nolint:forcetypeassert
	}

	return n
}

func (n *node) clone() *node {
	c := *n
	c.items = make([]*node, len(n.items))

	for i, it := range n.items {
		c.items[i] = it.clone()
	}

	c.keys = append([]string(nil), n.keys...)

	return &c
}

func (n *node) equal(o *node) bool {
	if n.kind != o.kind || n.b != o.b || n.i != o.i || n.s != o.s || len(n.items) != len(o.items) {
		return false
	}

	for i := range n.items {
		if n.kind == 'm' && n.keys[i] != o.keys[i] {
			return false
		}

		if !n.items[i].equal(o.items[i]) {
			return false
		}
	}

	return true
}

// ---- rendering

func (n *node) writeJSON(buf *bytes.Buffer) {
	switch n.kind {
	case 'n':
		buf.WriteString("null")
	case 'b':
		buf.WriteString(strconv.FormatBool(n.b))
	case 'i':
		buf.WriteString(strconv.Itoa(n.i))
	case 's':
		b, _ := json.Marshal(n.s)
		buf.Write(b)
	case 'l':
		buf.WriteByte('[')

		for i, it := range n.items {
			if i > 0 {
				buf.WriteByte(',')
			}

			it.writeJSON(buf)
		}

		buf.WriteByte(']')
	case 'm':
		buf.WriteByte('{')

		for i, it := range n.items {
			if i > 0 {
				buf.WriteByte(',')
			}

			b, _ := json.Marshal(n.keys[i])
			buf.Write(b)
			buf.WriteByte(':')
			it.writeJSON(buf)
		}

		buf.WriteByte('}')
	}
}

func (n *node) JSON() string {
	var buf bytes.Buffer

	n.writeJSON(&buf)

	return buf.String()
}

func (n *node) scalar() bool {
	return n.kind != 'l' && n.kind != 'm' || len(n.items) == 0
}

func (n *node) writeYAML(buf *bytes.Buffer, indent int) {
	pad := strings.Repeat(" ", indent)

	switch {
	case n.scalar():
		buf.WriteString(pad)
		n.writeJSON(buf) // flow scalars / empty collections are the JSON forms
		buf.WriteByte('\n')
	case n.kind == 'l':
		for _, it := range n.items {
			if it.scalar() {
				buf.WriteString(pad + "- ")
				it.writeJSON(buf)
				buf.WriteByte('\n')
			} else {
				buf.WriteString(pad + "-\n")
				it.writeYAML(buf, indent+2)
			}
		}
	default:
		for i, it := range n.items {
			key := n.keys[i]
			if key == "" || strings.ContainsAny(key, ":# {}[],&*!|>'\"%@`") {
				b, _ := json.Marshal(key)
				key = string(b)
			}

			if it.scalar() {
				buf.WriteString(pad + key + ": ")
				it.writeJSON(buf)
				buf.WriteByte('\n')
			} else {
				buf.WriteString(pad + key + ":\n")
				it.writeYAML(buf, indent+2)
			}
		}
	}
}

func (n *node) YAML() string {
	var buf bytes.Buffer

	n.writeYAML(&buf, 0)

	return buf.String()
}

// Form renders a flat map as application/x-www-form-urlencoded (nested values as JSON text).
func (n *node) Form() string {
	if n.kind != 'm' {
		return url.QueryEscape(n.JSON())
	}

	vals := url.Values{}

	for i, it := range n.items {
		switch it.kind {
		case 's':
			vals.Add(n.keys[i], it.s)
		default:
			vals.Add(n.keys[i], it.JSON())
		}
	}

	keys := make([]string, 0, len(vals))
	for k := range vals {
		keys = append(keys, k)
	}

	sort.Strings(keys)

	var parts []string

	for _, k := range keys {
		for _, v := range vals[k] {
			parts = append(parts, url.QueryEscape(k)+"="+url.QueryEscape(v))
		}
	}

	return strings.Join(parts, "&")
}

// ---- the type-confusion grammar

type mutation struct {
	Path string // e.g. rules[0].execute[1].config
	Op   string // replace:<name> | remove-key | duplicate-key
	doc  *node
}

func (m mutation) String() string { return m.Path + " " + m.Op }

type replacement struct {
	name string
	mk   func() *node
}

func replacements() []replacement {
	return []replacement{
		{"null", nNull},
		{"true", func() *node { return nBool(true) }},
		{"7", func() *node { return nInt(7) }},
		{`"s"`, func() *node { return nStr("s") }},
		{"[]", func() *node { return nList() }},
		{"[x]", func() *node { return nList(nStr("x")) }},
		{"{}", func() *node { return nMap() }},
		{"{k:v}", func() *node { return nMap("k", nStr("v")) }},
	}
}

var perturbations = []struct {
	name string
	f    func(string) string
}{
	{"empty", func(string) string { return "" }},
	{"leading-exclamation-mark", func(v string) string { return "!" + v }},
	{"broken-escape-appended", func(v string) string { return v + "%zz" }},
	{"unbalanced-bracket-appended", func(v string) string { return v + "([" }},
	{"unfinished-template-appended", func(v string) string { return v + "{{" }},
	{"asterisk", func(string) string { return "*" }},
	{"lone-backslash-segment-appended", func(v string) string { return v + "/\\" }},
}

func allStrings(items []*node) bool {
	for _, it := range items {
		if it.kind != 's' {
			return false
		}
	}

	return true
}

// mutations enumerates, in document order: every node replaced in turn by each replacement
// value (identical replacements skipped), every map key removed, every map key duplicated.
func mutations(root *node) []mutation {
	var out []mutation

	// with returns a copy of root in which the node at path idx (child indexes) is transformed by f
	var with func(n *node, idx []int, f func(parent *node, pos int) *node) *node

	with = func(n *node, idx []int, f func(parent *node, pos int) *node) *node {
		if len(idx) == 0 {
			return f(nil, 0)
		}

		c := *n
		c.items = append([]*node(nil), n.items...)
		c.keys = append([]string(nil), n.keys...)

		if len(idx) == 1 {
			return f(&c, idx[0])
		}

		c.items[idx[0]] = with(n.items[idx[0]], idx[1:], f)

		return &c
	}

	var walk func(n *node, path string, idx []int)

	walk = func(n *node, path string, idx []int) {
		for _, r := range replacements() {
			nv := r.mk()
			if nv.equal(n) {
				continue
			}

			doc := with(root, idx, func(parent *node, pos int) *node {
				if parent == nil {
					return nv
				}

				parent.items[pos] = nv

				return parent
			})

			out = append(out, mutation{Path: path, Op: "replace:" + r.name, doc: doc})
		}

		// the value itself: a string that stays a string but is not what its reader expects (an empty value, a leading
		// exclamation mark, a broken escape, an unbalanced bracket, an unfinished template); a list of strings with every
		// element changed the same way
		for _, pt := range perturbations {
			var nv *node

			switch {
			case n.kind == 's':
				nv = nStr(pt.f(n.s))
			case n.kind == 'l' && len(n.items) > 0 && allStrings(n.items):
				nv = nList()
				for _, it := range n.items {
					nv.items = append(nv.items, nStr(pt.f(it.s)))
				}
			default:
				continue
			}

			if nv.equal(n) {
				continue
			}

			doc := with(root, idx, func(parent *node, pos int) *node {
				if parent == nil {
					return nv
				}

				parent.items[pos] = nv

				return parent
			})

			out = append(out, mutation{Path: path, Op: "value:" + pt.name, doc: doc})
		}

		for i, it := range n.items {
			var p string

			if n.kind == 'm' {
				p = n.keys[i]
				if path != "" {
					p = path + "." + p
				}
			} else {
				p = fmt.Sprintf("%s[%d]", path, i)
			}

			cidx := append(append([]int(nil), idx...), i)

			if n.kind == 'm' {
				out = append(out, mutation{Path: p, Op: "remove-key", doc: with(root, cidx, func(parent *node, pos int) *node {
					parent.items = append(parent.items[:pos:pos], parent.items[pos+1:]...)
					parent.keys = append(parent.keys[:pos:pos], parent.keys[pos+1:]...)

					return parent
				})})
				out = append(out, mutation{Path: p, Op: "duplicate-key", doc: with(root, cidx, func(parent *node, pos int) *node {
					parent.items = append(parent.items, parent.items[pos])
					parent.keys = append(parent.keys, parent.keys[pos])

					return parent
				})})
			}

			walk(it, p, cidx)
		}
	}

	walk(root, "", nil)

	return out
}

// countNodes returns the number of nodes of a document.
func countNodes(n *node) int {
	c := 1
	for _, it := range n.items {
		c += countNodes(it)
	}

	return c
}
