package c19

import (
	"bytes"
	"context"
	"encoding/json"
	"fmt"
	"os"
	"os/exec"
	"path/filepath"
	"strings"
	"time"

	"github.com/dadrus/heimdall/internal/watcher"

	"github.com/dadrus/heimdall/verif/engine"
	"github.com/dadrus/heimdall/verif/env"
)

// Real-watcher confirmation: a handful of part 1 cases are repeated in a process of their
// own with the real fsnotify based watcher (started loop, `go listener.OnChanged`), where
// nothing can recover: the process must survive exactly when the guarded run did not panic,
// and the loop must still deliver the following valid change.

const envRW = "VERIF_C19_REALWATCHER"

// RWCase is the replay format.
type RWCase struct {
	Part    string `json:"part"` // "real-watcher"
	Loader  string `json:"loader"`
	Bundle  string `json:"bundle"`
	Variant string `json:"variant"`
	KeyID   string `json:"key_id,omitempty"`
	Tier    string `json:"tier,omitempty"`
}

func (r *RWCase) key() string {
	return strings.Join([]string{"rw", "watcher.fireOnChange->" + r.Loader + ".OnChanged", r.Bundle, r.Variant, r.KeyID}, "|")
}

const rwFileSize = 12 << 10

// padded gives every file the same length, so that one in-place write (one fsnotify event)
// replaces the complete content.
func padded(content []byte) []byte {
	out := bytes.Repeat([]byte("\n"), rwFileSize)
	copy(out, content)

	return out
}

func writeInPlace(path string, content []byte) error {
	f, err := os.OpenFile(path, os.O_WRONLY|os.O_CREATE, 0o600)
	if err != nil {
		return err
	}

	defer f.Close()

	_, err = f.WriteAt(padded(content), 0)

	return err
}

type rwResult struct {
	First  string `json:"first"`  // accepted | rejected
	State1 string `json:"state1"` // state after the first change
	Second string `json:"second"`
	State2 string `json:"state2"`
	State0 string `json:"state0"`
	Err    string `json:"err,omitempty"`
}

//nolint:gochecknoinits
func init() {
	raw := os.Getenv(envRW)
	if raw == "" {
		return
	}

	// grandchild mode
	var cs RWCase
	if err := json.Unmarshal([]byte(raw), &cs); err != nil {
		fmt.Fprintln(os.Stderr, "bad case:", err)
		os.Exit(4)
	}

	os.Exit(realWatcherMain(&cs))
}

func realWatcherMain(cs *RWCase) int {
	env.SetNow(env.T0)

	ps := pki(cs.Tier == "thorough")
	b := ps.byName[cs.Bundle]
	v, err := parseVariant(cs.Variant)

	if b == nil || err != nil {
		fmt.Fprintln(os.Stderr, "unknown bundle/variant")

		return 4
	}

	dir, err := scratchDir("c19-rw-")
	if err != nil {
		fmt.Fprintln(os.Stderr, err)

		return 4
	}

	defer os.RemoveAll(dir)

	path := filepath.Join(dir, "store.pem")
	if err = writeInPlace(path, ps.a.PEM); err != nil {
		fmt.Fprintln(os.Stderr, err)

		return 4
	}

	lb := &logBuf{ch: make(chan string, 64)}

	var (
		w    watcher.Watcher
		stop func()
	)

	w, stop, err = watcher.VerifC19NewStartedWatcher(lb.logger())
	if err != nil {
		fmt.Fprintln(os.Stderr, "watcher:", err)

		return 5
	}

	defer stop()

	ld, _ := loaderByName(cs.Loader)

	h, err := ld.create(path, cs.KeyID, w)
	if err != nil {
		fmt.Fprintln(os.Stderr, "create:", err)

		return 4
	}

	res := rwResult{}
	res.State0, _ = h.state()

	await := func() string {
		for {
			select {
			case line := <-lb.ch:
				if strings.Contains(line, "reload") {
					return reloadVerdict(line)
				}
			case <-time.After(120 * time.Second):
				return "timeout"
			}
		}
	}

	if err = writeInPlace(path, v.apply(b.PEM)); err != nil {
		return 4
	}

	res.First = await()
	res.State1, err = h.state()

	if err != nil {
		res.Err = err.Error()
	}

	if err = writeInPlace(path, ps.b.PEM); err != nil {
		return 4
	}

	res.Second = await()
	res.State2, err = h.state()

	if err != nil {
		res.Err += " / " + err.Error()
	}

	out, _ := json.Marshal(res)
	fmt.Println("RESULT " + string(out))

	return 0
}

func realWatcherCases(c *engine.Ctx) []*RWCase {
	var out []*RWCase

	for _, ld := range []string{"jwt", "tls", "httpsig"} {
		for _, bv := range [][2]string{
			{"empty-file", "full"}, {"certificate-only", "full"}, {"rsa1024-pkcs1-keyonly", "full"}, {"ec224-sec1-keyonly", "full"},
			{"supported-key-then-ec224", "full"}, {"ec521-sec1-chain", "full"}, {"ec384-sec1-selfsigned", "full"},
			{"ec384-sec1-selfsigned", "trunc:100"}, {"ec256-sec1-chain-keyid", "trunc:700"}, {"ed25519-pkcs8", "full"},
		} {
			out = append(out, &RWCase{Part: "real-watcher", Loader: ld, Bundle: bv[0], Variant: bv[1], Tier: c.Tier})
		}
	}

	return out
}

func realWatcherUnits(c *engine.Ctx) []unit {
	var units []unit

	for _, cs := range realWatcherCases(c) {
		units = append(units, unit{id: cs.key(), run: func(c *engine.Ctx, dir string) {
			if skipped(cs.key()) {
				return
			}

			runRealWatcher(c, cs, dir, false)
		}})
	}

	return units
}

func runRealWatcher(c *engine.Ctx, cs *RWCase, dir string, replay bool) {
	ps := pki(!c.Quick())
	b := ps.byName[cs.Bundle]
	v, err := parseVariant(cs.Variant)

	if b == nil || err != nil {
		c.Infra("real-watcher: unknown bundle/variant %s %s", cs.Bundle, cs.Variant)

		return
	}

	entry := "watcher.fireOnChange->" + cs.Loader + ".OnChanged"

	progress(cs.key(), cs)
	c.Eval(1)
	c.Nontrivial(cs.key())

	// guarded in-process run of the same case
	ld, _ := loaderByName(cs.Loader)
	path := filepath.Join(dir, "rw-store.pem")
	_ = writeFile(path, ps.a.PEM)
	w := newRecWatcher()

	if _, err = ld.create(path, cs.KeyID, w); err != nil {
		c.Infra("real-watcher: create: %v", err)

		return
	}

	lb := &logBuf{}
	_ = writeFile(path, padded(v.apply(b.PEM)))
	pi := w.fire(path, lb.logger())
	verdict := verdictOf(pi, reloadVerdict(lb.take()))

	// the same with the real watcher in a process of its own
	raw, _ := json.Marshal(cs)
	ctx, cancel := context.WithTimeout(context.Background(), 120*time.Second)

	defer cancel()

	cmd := exec.CommandContext(ctx, os.Args[0], "C19")
	cmd.Env = append(os.Environ(), envRW+"="+string(raw), envTmp+"="+dir)

	var stdout, stderr bytes.Buffer

	cmd.Stdout = &stdout
	cmd.Stderr = &stderr

	c.AwaitingChild(true)
	werr := cmd.Run()
	c.AwaitingChild(false)

	if replay {
		fmt.Printf("replay: guarded run: %s; real watcher process: err=%v stdout=%s stderr(first lines)=%s\n", verdict, werr,
			strings.TrimSpace(stdout.String()), oneLine(firstLines(stderr.String(), 14), 1500))
	}

	if ee, ok := werr.(*exec.ExitError); ok && (ee.ExitCode() == 4 || ee.ExitCode() == 5) { //nolint:errorlint
		if ee.ExitCode() == 5 {
			c.NotExhaustive("fsnotify watcher cannot be created in this environment: real-watcher confirmation skipped")
			c.Outcome(entry + ": not run (no inotify)")

			return
		}

		c.Infra("real-watcher grandchild failed: %s", stderr.String())

		return
	}

	if ctx.Err() != nil {
		c.NotExhaustive("real-watcher process exceeded its time limit: " + cs.key())

		return
	}

	if werr != nil {
		kind, fn, headline := crashDiagnosis(stderr.String(), werr)
		viaWatcher := strings.Contains(stderr.String(), "watcher.(*watcher).fireOnChange")

		c.Outcome(entry + ": PROCESS DIED (" + kind + ")")
		c.Count("process_deaths_reproduced_with_real_fsnotify_watcher", 1)

		if pi == nil {
			viol(c, deathSig(entry, kind, fn),
				fmt.Sprintf("bundle %s %s: the process with the real watcher died (%s; innermost heimdall frame %s; goroutine created by fireOnChange: %v) although the guarded run did not panic",
					cs.Bundle, cs.Variant, headline, fn, viaWatcher), cs)
		} else {
			// same cause as the enumerating run: reported under its signature; here the consequence is confirmed
			viol(c, cs.Loader+".OnChanged/panic/"+pi.sig(),
				fmt.Sprintf("CONFIRMED with the real fsnotify watcher in a process of its own: one write of bundle %s %s to the watched file ended the process: %s (goroutine created by watcher.fireOnChange: %v)",
					cs.Bundle, cs.Variant, headline, viaWatcher), &KSCase{Part: "keystore", Loader: cs.Loader, Phase: "reload", Bundle: cs.Bundle, Variant: cs.Variant, KeyID: cs.KeyID, Tier: cs.Tier})
		}

		return
	}

	var res rwResult

	line := stdout.String()
	if i := strings.Index(line, "RESULT "); i >= 0 {
		_ = json.Unmarshal([]byte(strings.TrimSpace(line[i+7:])), &res)
	}

	switch {
	case pi != nil:
		viol(c, entry+"/survived-although-guarded-run-panicked", fmt.Sprintf("bundle %s %s: guarded run panicked (%s), real watcher process survived: %+v", cs.Bundle, cs.Variant, pi, res), cs)
	case res.First != verdict:
		viol(c, entry+"/real-watcher-disagrees-with-guarded-run", fmt.Sprintf("bundle %s %s: guarded run %s, real watcher %+v", cs.Bundle, cs.Variant, verdict, res), cs)
	case res.Second != vAccepted || res.State2 == res.State0 || res.Err != "":
		viol(c, entry+"/watcher-loop-not-delivering-afterwards", fmt.Sprintf("bundle %s %s: %+v", cs.Bundle, cs.Variant, res), cs)
	case res.First == vRejected && res.State1 != res.State0:
		viol(c, entry+"/previous-state-lost-after-rejected-reload", fmt.Sprintf("bundle %s %s: %+v", cs.Bundle, cs.Variant, res), cs)
	default:
		c.Outcome(entry + ": real watcher " + res.First + ", loop keeps delivering")
	}
}

func replayRealWatcher(c *engine.Ctx, raw json.RawMessage) {
	var cs RWCase
	if err := json.Unmarshal(raw, &cs); err != nil {
		c.Infra("bad replay: %v", err)

		return
	}

	if cs.Tier != "" {
		c.Tier = cs.Tier
	}

	dir, err := scratchDir("c19-replay-")
	if err != nil {
		c.Infra("%v", err)

		return
	}

	defer os.RemoveAll(dir)

	runRealWatcher(c, &cs, dir, true)
}
