package c19

import (
	"bytes"
	"crypto/tls"
	"encoding/json"
	"fmt"
	"io"
	"net"
	"net/http"
	"os"
	"path/filepath"
	"time"

	"github.com/dadrus/heimdall/internal/config"
	"github.com/dadrus/heimdall/internal/handler/listener"
	"github.com/dadrus/heimdall/internal/watcher"

	"github.com/dadrus/heimdall/verif/engine"
	"github.com/dadrus/heimdall/verif/env"
)

// (6) what arrives at the port of a service with TLS configured before any request line: the listener the services are
// started on (listener.New, the key store of the configuration) under a net/http server the way the service life cycle
// runs it (Serve returning is the end of the service: the life cycle manager treats it as fatal). One peer after the other
// connects, sends its bytes and closes; after each the server must still be serving: Serve has not returned and a proper
// TLS client gets its answer.

type TLSConnCase struct {
	Part string `json:"part"` // "tls-connection"
	Peer string `json:"peer"`
}

func (k *TLSConnCase) key() string { return "tlsconn|listener.Accept|" + k.Peer }

type peerBehaviour struct {
	name  string
	bytes func(hello []byte) []byte
}

func peerMenu(thorough bool) []peerBehaviour {
	menu := []peerBehaviour{
		{"connects-and-closes", func([]byte) []byte { return nil }},
		{"plain-http-request", func([]byte) []byte { return []byte("GET / HTTP/1.1\r\nHost: h\r\n\r\n") }},
		{"plain-http2-preface", func([]byte) []byte { return []byte("PRI * HTTP/2.0\r\n\r\nSM\r\n\r\n") }},
		{"zero-bytes", func([]byte) []byte { return make([]byte, 64) }},
		{"ff-bytes", func([]byte) []byte { return bytes.Repeat([]byte{0xff}, 64) }},
		{"record-header-only", func([]byte) []byte { return []byte{0x16, 0x03, 0x01, 0x02, 0x00} }},
		{"record-with-oversized-length", func([]byte) []byte { return []byte{0x16, 0x03, 0x01, 0xff, 0xff, 0x01} }},
		{"alert-record", func([]byte) []byte { return []byte{0x15, 0x03, 0x03, 0x00, 0x02, 0x02, 0x28} }},
		{"application-data-first", func([]byte) []byte { return []byte{0x17, 0x03, 0x03, 0x00, 0x04, 1, 2, 3, 4} }},
		{"sslv2-style-hello", func([]byte) []byte { return []byte{0x80, 0x2e, 0x01, 0x00, 0x02, 0x00, 0x15, 0x00, 0x00, 0x00, 0x10} }},
		{"client-hello-with-flipped-handshake-type", func(h []byte) []byte {
			out := append([]byte{}, h...)
			out[5] ^= 0xff

			return out
		}},
		{"client-hello-twice", func(h []byte) []byte { return append(append([]byte{}, h...), h...) }},
	}

	step := 32
	if thorough {
		step = 4
	}

	for cut := 1; ; cut += step {
		cut := cut

		menu = append(menu, peerBehaviour{fmt.Sprintf("client-hello-cut-at-%d", cut), func(h []byte) []byte {
			if cut >= len(h) {
				return h
			}

			return h[:cut]
		}})

		if cut > 600 {
			break
		}
	}

	return menu
}

// clientHello records what a Go TLS client sends first.
func clientHello() []byte {
	a, b := net.Pipe()

	go func() {
		_ = tls.Client(a, &tls.Config{InsecureSkipVerify: true, ServerName: "h.local"}).Handshake() //nolint:gosec
	}()

	_ = b.SetReadDeadline(time.Now().Add(5 * time.Second))

	buf := make([]byte, 4096)
	n, _ := b.Read(buf)

	_ = b.Close()
	_ = a.Close()

	return buf[:n]
}

func tlsConnUnits(c *engine.Ctx) []unit {
	return []unit{{id: "tlsconn", run: func(c *engine.Ctx, dir string) {
		runTLSConns(c, dir, nil)
	}}}
}

func runTLSConns(c *engine.Ctx, dir string, only *TLSConnCase) {
	ks := filepath.Join(dir, "tls-listener.pem")
	if err := writeFile(ks, pki(false).a.PEM); err != nil {
		c.Infra("%v", err)

		return
	}

	defer os.Remove(ks)

	l, err := listener.New("tcp", "verif", "127.0.0.1:0", &config.TLS{KeyStore: config.KeyStore{Path: ks, Password: storePassword}},
		&watcher.NoopWatcher{}, nopObserver{})
	if err != nil {
		c.Infra("tls listener: %v", err)

		return
	}

	// the key store was validated at the virtual date the certificates are made for; connections need the real clock
	env.WithRealClock(func() { tlsConnsOver(c, l, only) })
}

func tlsConnsOver(c *engine.Ctx, l net.Listener, only *TLSConnCase) {
	srv := &http.Server{
		Handler:           http.HandlerFunc(func(rw http.ResponseWriter, _ *http.Request) { _, _ = io.WriteString(rw, "served") }),
		ReadHeaderTimeout: 10 * time.Second,
		ErrorLog:          nil,
	}

	returned := make(chan error, 1)

	go func() { returned <- srv.Serve(l) }()

	defer srv.Close()

	addr := l.Addr().String()
	client := &http.Client{Timeout: 60 * time.Second, Transport: &http.Transport{
		TLSClientConfig: &tls.Config{InsecureSkipVerify: true}, DisableKeepAlives: true, //nolint:gosec
	}}

	serving := func() string {
		select {
		case err := <-returned:
			returned <- err

			return fmt.Sprintf("Serve returned: %v", err)
		default:
		}

		resp, err := client.Get("https://" + addr + "/")
		if err != nil {
			select {
			case serr := <-returned:
				returned <- serr

				return fmt.Sprintf("Serve returned: %v (a proper client then got: %v)", serr, err)
			default:
			}

			return "a proper client got: " + err.Error()
		}

		body, _ := io.ReadAll(resp.Body)
		_ = resp.Body.Close()

		if resp.StatusCode != http.StatusOK || string(body) != "served" {
			return fmt.Sprintf("a proper client got status %d body %q", resp.StatusCode, body)
		}

		return ""
	}

	if msg := serving(); msg != "" {
		c.Infra("tls listener does not serve before any peer: %s", msg)

		return
	}

	hello := clientHello()
	if len(hello) < 100 {
		c.Infra("could not record a client hello (%d bytes)", len(hello))

		return
	}

	for _, pb := range peerMenu(!c.Quick()) {
		cs := &TLSConnCase{Part: "tls-connection", Peer: pb.name}
		if only != nil && only.Peer != pb.name {
			continue
		}

		if skipped(cs.key()) {
			continue
		}

		progress(cs.key(), cs)

		con, err := net.DialTimeout("tcp", addr, 30*time.Second)
		if err != nil {
			viol(c, "tls-listener/stopped-accepting/before-"+peerClass(pb.name), fmt.Sprintf("peer %s cannot connect: %v", pb.name, err), cs)

			return
		}

		if b := pb.bytes(hello); len(b) > 0 {
			_, _ = con.Write(b)
		}

		// what the server answers (an alert, nothing) is read until it closes or a short while has passed; then the peer goes
		_ = con.SetReadDeadline(time.Now().Add(50 * time.Millisecond))
		_, _ = io.Copy(io.Discard, con)
		_ = con.Close()

		c.Eval(1)
		c.NontrivialN(1)

		if msg := serving(); msg != "" {
			c.Outcome("tls listener: server stopped serving")
			viol(c, "tls-listener/server-stopped-serving-after/"+peerClass(pb.name),
				fmt.Sprintf("after the peer %q had connected, sent its bytes and closed: %s", pb.name, msg), cs)

			return
		}

		c.Outcome("tls listener: still serving after the peer")
	}
}

func peerClass(name string) string {
	if len(name) > 20 && name[:20] == "client-hello-cut-at-" {
		return "client-hello-cut-short"
	}

	return name
}

func replayTLSConn(c *engine.Ctx, raw json.RawMessage) {
	var cs TLSConnCase
	if err := json.Unmarshal(raw, &cs); err != nil {
		c.Infra("bad replay: %v", err)

		return
	}

	dir, err := scratchDir("c19-replay-")
	if err != nil {
		c.Infra("%v", err)

		return
	}

	defer os.RemoveAll(dir)
	defer flushViolations(c)

	runTLSConns(c, dir, &cs)
}
