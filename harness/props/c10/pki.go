package c10

import (
	"crypto"
	"crypto/rand"
	"crypto/x509"
	"crypto/x509/pkix"
	"encoding/json"
	"encoding/pem"
	"math/big"
	"os"
	"path/filepath"
	"time"

	"github.com/go-jose/go-jose/v4"
	"github.com/go-jose/go-jose/v4/jwt"

	"github.com/dadrus/heimdall/verif/env"
	"github.com/dadrus/heimdall/verif/hx"
)

// fixture holds the per-process key material and files.
type fixture struct {
	dir       string
	rootKey   crypto.Signer
	root      *x509.Certificate
	trustPath string // PEM with the root (trust_store of the jwt authenticator)
	signKey   crypto.Signer
	ksPath    string // key store of the jwt finalizer
	// ksCertPath: the same with a certificate that expires certExpiry seconds after T0
	ksCertPath string
	jwt        string // token signed with signKey, kid k1, valid for years
	jwks       map[string]string
}

var fx *fixture

func must(err error) {
	if err != nil {
		panic(err)
	}
}

// certExpiry: seconds after T0 at which the certificate of the finalizer's second key store expires
const certExpiry = 20

func getFixture() *fixture {
	if fx != nil {
		return fx
	}

	f := &fixture{jwks: map[string]string{}}

	dir, err := os.MkdirTemp("", "verif-c10-")
	must(err)

	f.dir = dir
	f.rootKey = hx.Key("EC", 256, 100)
	f.signKey = hx.Key("EC", 256, 101)

	rootTmpl := &x509.Certificate{
		SerialNumber:          big.NewInt(1),
		Subject:               pkix.Name{CommonName: "c10 root"},
		NotBefore:             env.T0.Add(-365 * 24 * time.Hour),
		NotAfter:              env.T0.Add(10 * 365 * 24 * time.Hour),
		KeyUsage:              x509.KeyUsageCertSign | x509.KeyUsageDigitalSignature,
		BasicConstraintsValid: true,
		IsCA:                  true,
	}

	der, err := x509.CreateCertificate(rand.Reader, rootTmpl, rootTmpl, f.rootKey.Public(), f.rootKey)
	must(err)

	f.root, err = x509.ParseCertificate(der)
	must(err)

	f.trustPath = filepath.Join(dir, "trust.pem")
	must(os.WriteFile(f.trustPath, pem.EncodeToMemory(&pem.Block{Type: "CERTIFICATE", Bytes: der}), 0o600))

	f.ksPath = filepath.Join(dir, "signer.pem")
	must(os.WriteFile(f.ksPath, hx.PEMEntry(hx.KeySpec{Kind: "EC", Size: 256, KID: "fin"}, hx.Key("EC", 256, 102)), 0o600))

	f.ksCertPath = filepath.Join(dir, "signer-with-certificate.pem")
	must(os.WriteFile(f.ksCertPath, hx.PEMEntry(hx.KeySpec{Kind: "EC", Size: 256, KID: "fin", WithCert: true, CN: "c10 signer",
		NotBefore: env.T0.Add(-time.Hour), NotAfter: env.T0.Add(certExpiry * time.Second)}, hx.Key("EC", 256, 103)), 0o600))

	signer, err := jose.NewSigner(jose.SigningKey{Algorithm: jose.ES256, Key: jose.JSONWebKey{Key: f.signKey, KeyID: "k1"}},
		(&jose.SignerOptions{}).WithType("JWT"))
	must(err)

	f.jwt, err = jwt.Signed(signer).Claims(map[string]any{
		"iss": "iss", "sub": "alice",
		"iat": env.T0.Add(-time.Hour).Unix(),
		"exp": env.T0.Add(10 * 365 * 24 * time.Hour).Unix(),
	}).Serialize()
	must(err)

	fx = f

	return f
}

func cleanupFixture() {
	if fx != nil {
		_ = os.RemoveAll(fx.dir)
		fx = nil
	}
}

// jwksFor renders the key set served by the JWKS endpoint: one key k1, with an x5c leaf certificate
// whose NotAfter is T0+r seconds (r == nil: no certificate).
func (f *fixture) jwksFor(r *int) string {
	key := "absent"
	if r != nil {
		key = itoa(*r)
	}

	if s, ok := f.jwks[key]; ok {
		return s
	}

	jwk := jose.JSONWebKey{Key: f.signKey.Public(), KeyID: "k1", Algorithm: "ES256", Use: "sig"}

	if r != nil {
		tmpl := &x509.Certificate{
			SerialNumber: big.NewInt(int64(1000 + *r)),
			Subject:      pkix.Name{CommonName: "c10 signer"},
			NotBefore:    env.T0.Add(-24 * time.Hour),
			NotAfter:     env.T0.Add(time.Duration(*r) * time.Second),
			KeyUsage:     x509.KeyUsageDigitalSignature,
		}

		der, err := x509.CreateCertificate(rand.Reader, tmpl, f.root, f.signKey.Public(), f.rootKey)
		must(err)

		leaf, err := x509.ParseCertificate(der)
		must(err)

		jwk.Certificates = []*x509.Certificate{leaf}
	}

	b, err := json.Marshal(jose.JSONWebKeySet{Keys: []jose.JSONWebKey{jwk}})
	must(err)

	f.jwks[key] = string(b)

	return f.jwks[key]
}
