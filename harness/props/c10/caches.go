package c10

import (
	"context"
	"errors"
	"fmt"
	"sort"
	"strings"
	"time"

	"github.com/dadrus/heimdall/internal/cache"
	"github.com/dadrus/heimdall/internal/cache/memory"
)

// ---------------------------------------------------------------------------
// reference cache with Redis `SET key value PX ms` / `GET key` semantics
// ---------------------------------------------------------------------------

var (
	errRedisInvalidExpire = errors.New("ERR invalid expire time in 'set' command")
	errRedisNil           = errors.New("redis nil message")
)

type redisEntry struct {
	val       []byte
	expiresAt time.Time
}

// redisRef: a non-positive PX argument is rejected as a whole (the old value stays), a key is
// gone at the instant its expiry time is reached.
type redisRef struct {
	m map[string]redisEntry
}

func newRedisRef() *redisRef { return &redisRef{m: map[string]redisEntry{}} }

func (r *redisRef) Start(context.Context) error { return nil }
func (r *redisRef) Stop(context.Context) error  { return nil }

func (r *redisRef) Get(_ context.Context, key string) ([]byte, error) {
	e, ok := r.m[key]
	if !ok || !time.Now().Before(e.expiresAt) {
		return nil, errRedisNil
	}

	return e.val, nil
}

func (r *redisRef) Set(_ context.Context, key string, value []byte, ttl time.Duration) error {
	ms := ttl.Milliseconds() // rueidis: Px(duration) sends duration.Milliseconds()
	if ms <= 0 {
		return errRedisInvalidExpire
	}

	r.m[key] = redisEntry{val: append([]byte(nil), value...), expiresAt: time.Now().Add(time.Duration(ms) * time.Millisecond)}

	return nil
}

// ---------------------------------------------------------------------------
// recording wrapper
// ---------------------------------------------------------------------------

// cacheOp is one operation seen at the cache seam.
type cacheOp struct {
	Op     string        `json:"op"` // get | set
	Key    string        `json:"key"`
	Hit    bool          `json:"hit,omitempty"`
	TTL    time.Duration `json:"ttl_ns,omitempty"`
	Reject string        `json:"rejected,omitempty"`
}

// stored is the last accepted Set per key.
type stored struct {
	storedAt time.Time
	ttl      time.Duration
	cause    string // diagnosis attached by the oracle when the Set itself was a violation
}

type recCache struct {
	kind    string
	inner   cache.Cache
	entries map[string]*stored
	log     []cacheOp
}

func newRecCache(kind string) *recCache {
	rc := &recCache{kind: kind, entries: map[string]*stored{}}

	switch kind {
	case "memory":
		// the real in-memory cache of heimdall; its ttlcache reads the same (virtual) clock. Start is not
		// called: the janitor goroutine only removes entries Get would not return anyway.
		rc.inner, _ = memory.NewCache(nil, nil, nil)
	case "redis":
		rc.inner = newRedisRef()
	default:
		panic("c10: unknown cache kind " + kind)
	}

	return rc
}

func (r *recCache) Start(context.Context) error { return nil }
func (r *recCache) Stop(context.Context) error  { return nil }

func (r *recCache) Get(ctx context.Context, key string) ([]byte, error) {
	v, err := r.inner.Get(ctx, key)
	r.log = append(r.log, cacheOp{Op: "get", Key: key, Hit: err == nil})

	return v, err
}

func (r *recCache) Set(ctx context.Context, key string, value []byte, ttl time.Duration) error {
	err := r.inner.Set(ctx, key, value, ttl)
	op := cacheOp{Op: "set", Key: key, TTL: ttl}

	if err != nil {
		op.Reject = err.Error()
	} else {
		r.entries[key] = &stored{storedAt: time.Now(), ttl: ttl}
	}

	r.log = append(r.log, op)

	return err
}

func short(k string) string {
	if len(k) > 8 {
		return k[:8]
	}

	return k
}

// fingerprint renders everything the future of a history can depend on at the cache seam.
func (r *recCache) fingerprint(t0 time.Time) string {
	keys := make([]string, 0, len(r.entries))
	for k := range r.entries {
		keys = append(keys, k)
	}

	sort.Strings(keys)

	var sb strings.Builder

	for _, k := range keys {
		e := r.entries[k]
		fmt.Fprintf(&sb, "%s@%d/%d;", short(k), int64(e.storedAt.Sub(t0)/time.Second), int64(e.ttl))
	}

	return sb.String()
}
