// Package c10: nothing is reused from a cache beyond its validity. Explicit-state BFS over histories of
// request / advance(Δ) executed on the real mechanisms (production factory, rule level WithConfig) with the clock
// hooked, in-process remotes and a recording cache around (a) the real in-memory cache, (b) a reference cache with
// Redis SET PX semantics.
package c10

import (
	"encoding/json"
	"fmt"
	"os"
	"sort"
	"strings"
	"time"

	"github.com/dadrus/heimdall/verif/engine"
	"github.com/dadrus/heimdall/verif/env"
)

// Op is one operation of a history.
type Op struct {
	Kind string `json:"op"` // request | advance
	D    int    `json:"seconds,omitempty"`
}

func (o Op) String() string {
	if o.Kind == "request" {
		return "request"
	}

	return fmt.Sprintf("advance(%ds)", o.D)
}

// Case is the replay format.
type Case struct {
	Cell  Cell     `json:"cell"`
	Hist  []Op     `json:"history"`
	Trace []string `json:"trace,omitempty"` // informational
}

func histStr(h []Op) string {
	s := make([]string, len(h))
	for i, o := range h {
		s[i] = o.String()
	}

	return strings.Join(s, " ")
}

// ---------------------------------------------------------------------------
// alphabet
// ---------------------------------------------------------------------------

var ttlAlpha = []*int{nil, intp(0), intp(3), intp(5), intp(30), intp(7200)}

func rAlpha(leeway int) []*int {
	return []*int{nil, intp(3600), intp(leeway + 1), intp(leeway), intp(leeway - 1), intp(1), intp(0), intp(-1)}
}

type overT struct {
	mode string
	ttl  *int
}

func overAlpha(vals []*int) []overT {
	out := []overT{{mode: "none"}, {mode: "without-ttl"}}

	for _, v := range vals {
		if v != nil {
			out = append(out, overT{mode: "ttl", ttl: v})
		}
	}

	return out
}

var mechOrder = []string{"introspection", "generic", "jwt-keys", "jwt-finalizer", "cc-finalizer", "cc-authstrategy",
	"remote-authz", "contextualizer", "httpcache"}

func cells(thorough bool) []Cell {
	var out []Cell

	caches := []string{"memory", "redis"}

	for _, mech := range mechOrder {
		def := mechDefs[mech]

		switch mech {
		case "httpcache":
			methods := []string{"GET"}
			if thorough {
				methods = append(methods, "POST")
			}

			// in front of the metadata endpoint of a jwt authenticator, http_cache configured explicitly
			for _, cch := range caches {
				for _, cc := range []string{"", "max-age=0", "max-age=5", "no-store"} {
					for _, ex := range []string{"", "+5s"} {
						for _, dttl := range []int{0, -1, 30} {
							hc := &HTTPCell{CacheControl: cc, Expires: ex, Method: "GET", Through: "metadata-endpoint", DefaultTTL: dttl}
							if dttl < 0 {
								hc.DefaultTTL, hc.TTLOmitted = 0, true
							}

							out = append(out, Cell{Mech: mech, Cache: cch, OverMode: "none", HTTP: hc})
						}
					}
				}
			}

			for _, cch := range caches {
				for _, method := range methods {
					for _, cc := range []string{"", "max-age=0", "max-age=5", "no-store", "no-cache", "private, max-age=5"} {
						for _, ex := range []string{"", "past", "+5s"} {
							for _, dt := range []string{"", "now", "now-10s"} {
								for _, dttl := range []int{0, 30} {
									out = append(out, Cell{Mech: mech, Cache: cch, OverMode: "none",
										HTTP: &HTTPCell{CacheControl: cc, Expires: ex, Date: dt, DefaultTTL: dttl, Method: method}})
								}
							}
						}
					}
				}
			}
		case "jwt-finalizer":
			// `ttl` is the validity of the issued token (R); values <= 1s must be refused by the configuration
			vals := []*int{nil, intp(3600), intp(30), intp(6), intp(5), intp(4), intp(2), intp(1), intp(0)}

			for _, cch := range caches {
				for _, p := range vals {
					for _, o := range overAlpha(vals) {
						out = append(out, Cell{Mech: mech, Cache: cch, Proto: p, OverMode: o.mode, Over: o.ttl})
					}
				}

				// the signing key with a certificate that expires before the tokens do (R seconds after T0)
				for _, p := range []*int{nil, intp(3600), intp(30)} {
					out = append(out, Cell{Mech: mech, Cache: cch, Proto: p, OverMode: "none", R: intp(certExpiry)})
				}
			}
		case "remote-authz", "contextualizer":
			for _, cch := range caches {
				for _, p := range ttlAlpha {
					for _, o := range overAlpha(ttlAlpha) {
						out = append(out, Cell{Mech: mech, Cache: cch, Proto: p, OverMode: o.mode, Over: o.ttl})
					}
				}
			}
		default:
			overs := overAlpha(ttlAlpha)
			if def.noOver {
				overs = []overT{{mode: "none"}}
			}

			vls := []*int{nil}
			if def.hasVLeeway {
				vls = append(vls, intp(3))
			}

			for _, cch := range caches {
				for _, vl := range vls {
					for _, r := range rAlpha(def.mechLeeway) {
						for _, p := range ttlAlpha {
							for _, o := range overs {
								out = append(out, Cell{Mech: mech, Cache: cch, R: r, Proto: p, OverMode: o.mode, Over: o.ttl, VLeeway: vl})
							}
						}
					}
				}
			}
		}
	}

	return out
}

// ---------------------------------------------------------------------------
// RFC 7234 reference (deliberately boring)
// ---------------------------------------------------------------------------

type httpRef struct {
	storable bool
	why      string
	life     int  // freshness lifetime in seconds (RFC 7234 4.2.1; heimdall's default_ttl where no explicit one is given)
	explicit bool // lifetime given by the response itself
	noCache  bool
	age      int // apparent age on arrival derived from Date (RFC 7234 4.2.3)
}

func refHTTP(h *HTTPCell) httpRef {
	r := httpRef{storable: true}

	if h.Date == "now-10s" {
		r.age = 10
	}

	cc := h.CacheControl

	switch {
	case strings.Contains(cc, "no-store"):
		return httpRef{why: "no-store"}
	case strings.Contains(cc, "max-age=0"):
		r.life, r.explicit = 0, true
	case strings.Contains(cc, "max-age=5"):
		r.life, r.explicit = 5, true
	case h.Expires != "":
		e := 5
		if h.Expires == "past" {
			e = -3600
		}

		// Expires minus Date; a missing Date is the time of reception
		r.life, r.explicit = e+r.age, true
	default:
		if h.DefaultTTL <= 0 {
			return httpRef{why: "no explicit freshness lifetime and no default_ttl"}
		}

		r.life = h.DefaultTTL
	}

	r.noCache = strings.Contains(cc, "no-cache")

	return r
}

// ---------------------------------------------------------------------------
// executing one history
// ---------------------------------------------------------------------------

// strictAge turns the Date-derived age of RFC 7234 4.2.3 from a counted don't-care into a violation.
var strictAge = os.Getenv("VERIF_C10_STRICT_AGE") == "1"

type finding struct {
	sig, msg string
}

type obs struct {
	h         handed
	calls     map[string]int
	ops       []cacheOp
	fromCache bool
	hitKey    string
}

func (w *world) doRequest() obs {
	w.tr.Reset()
	w.rec.log = nil

	var h handed

	// Endpoint.Hash and friends iterate maps: the order is pinned so that the run is deterministic (C11 explores it)
	env.WithMapOrder(nil, func() { h = w.req(w) })

	o := obs{h: h, calls: map[string]int{}, ops: w.rec.log}

	for _, r := range w.tr.Log {
		o.calls[hostOf(r.URL)]++
	}

	for _, op := range o.ops {
		if op.Op == "get" && op.Hit {
			o.hitKey = op.Key
		}
	}

	o.fromCache = h.ok && o.hitKey != "" && (w.def.primary == "" || o.calls[w.def.primary] == 0)

	return o
}

func (w *world) tokenTTL() int {
	// jwt finalizer: validity of the issued token per docs (default 5 minutes)
	if t := w.cell.effTTL(w.def); t != nil {
		return *t
	}

	return 300
}

// judge evaluates the oracle for one request. Set diagnoses are attached to the stored entries so that later hits
// can name their cause. It returns the findings of this request and the outcome classes observed.
func (w *world) judge(o obs) (fs []finding, outcomes []string) {
	now := w.now()
	mech := w.cell.Mech
	add := func(sig, msg string) { fs = append(fs, finding{component(w.cell, sig) + "/" + sig, msg}) }

	if !o.h.ok {
		if strings.Contains(o.h.err, "expired") {
			outcomes = append(outcomes, "request-refused:credential-or-certificate-expired")
		} else {
			outcomes = append(outcomes, "request-failed:other:"+mech+":"+firstLine(o.h.err))
		}
	}

	var cfg *int
	if mech != "jwt-finalizer" && mech != "httpcache" {
		cfg = w.cell.effTTL(w.def)
	}

	var hr httpRef
	if mech == "httpcache" {
		hr = refHTTP(w.cell.HTTP)
	}

	// ---- (i) every Set -----------------------------------------------------
	for _, op := range o.ops {
		if op.Op != "set" {
			continue
		}

		if op.Reject != "" {
			// Redis semantics refuse a non-positive PX: nothing is stored, the statement is not touched
			outcomes = append(outcomes, "set-with-non-positive-ttl-refused-by-redis-semantics")

			continue
		}

		ent := w.rec.entries[op.Key]
		cause, detail := "", ""

		if mech == "httpcache" {
			switch {
			case !hr.storable && hr.why == "no-store":
				cause, detail = "no-store-response-stored", "Cache-Control: no-store"
			case !hr.storable:
				cause, detail = "response-without-any-freshness-lifetime-stored", hr.why
			case hr.life <= 0 && op.TTL <= 0:
				cause = "non-positive-freshness-lifetime-passed-as-ttl-never-expires-in-memory-cache"
				detail = fmt.Sprintf("freshness lifetime %ds, Set(ttl=%v): ttlcache treats ttl<=0 as no expiry", hr.life, op.TTL)
			case hr.life <= 0:
				cause, detail = "stored-although-freshness-lifetime-not-positive", fmt.Sprintf("freshness lifetime %ds, ttl %v", hr.life, op.TTL)
			case op.TTL <= 0:
				cause, detail = "non-positive-ttl-stored", fmt.Sprintf("ttl %v", op.TTL)
			case op.TTL > secs(hr.life):
				cause, detail = "ttl-exceeds-freshness-lifetime", fmt.Sprintf("ttl %v > freshness lifetime %ds", op.TTL, hr.life)
			case hr.explicit && hr.age > 0 && op.TTL > secs(hr.life-hr.age):
				// the statement does not say whether the lifetime counts from the reception or, as RFC 7234 4.2.3 has it,
				// from the Date of the response: don't-care unless VERIF_C10_STRICT_AGE=1
				if strictAge {
					cause = "response-age-from-Date-header-ignored"
					detail = fmt.Sprintf("Date is %ds old on arrival, freshness lifetime %ds => fresh for %ds more, stored with ttl %v",
						hr.age, hr.life, hr.life-hr.age, op.TTL)
				} else {
					outcomes = append(outcomes, "dont-care:stored-beyond-Date-derived-age")
				}
			default:
				outcomes = append(outcomes, "stored-within-bound")
			}
		} else {
			// remaining lifetime of the artefact at the moment of the Set
			var rem *time.Duration

			switch w.def.lifetime {
			case "absolute":
				if e := w.absExpiry(); e != nil {
					d := e.Sub(now)
					rem = &d
				}
			case "relative":
				if o.h.validEnd != nil {
					d := o.h.validEnd.Sub(now)
					rem = &d
				}
			}

			switch {
			case op.TTL <= 0:
				cause, detail = "non-positive-ttl-stored", fmt.Sprintf("Set(ttl=%v)", op.TTL)
			case cfg != nil && *cfg == 0:
				cause, detail = "stored-although-configured-ttl-zero", fmt.Sprintf("effective %s is 0s, Set(ttl=%v)", w.def.ttlKey, op.TTL)
				if w.cell.OverMode == "ttl" && w.cell.Proto != nil && *w.cell.Proto > 0 {
					cause = "rule-level-cache_ttl-0-does-not-disable-caching"
					detail = fmt.Sprintf("prototype %s %ds, rule level 0s, Set(ttl=%v)", w.def.ttlKey, *w.cell.Proto, op.TTL)
				}
			case cfg != nil && op.TTL > secs(*cfg):
				cause, detail = "ttl-exceeds-configured-ttl", fmt.Sprintf("effective %s %ds, Set(ttl=%v)", w.def.ttlKey, *cfg, op.TTL)
			case rem != nil:
				soft := *rem - secs(w.def.mechLeeway)
				hard := soft

				if !w.def.documented {
					hard = *rem + secs(w.cell.vLeeway(w.def))
				}

				switch {
				case op.TTL > hard && soft <= 0 && cfg != nil && op.TTL == secs(*cfg):
					cause = "ttl-falls-back-to-configured-when-remaining-lifetime-inside-leeway"
					detail = fmt.Sprintf("remaining lifetime %v (inside the %ds leeway), configured %ds => Set(ttl=%v)", *rem,
						w.def.mechLeeway, *cfg, op.TTL)
				case op.TTL > hard:
					cause, detail = "ttl-exceeds-remaining-lifetime", fmt.Sprintf("remaining lifetime %v, bound %v, Set(ttl=%v)", *rem, hard, op.TTL)
				case op.TTL > soft:
					outcomes = append(outcomes, "dont-care:ttl-inside-undocumented-leeway-margin")
				default:
					outcomes = append(outcomes, "stored-within-bound")
				}
			default:
				if w.def.lifetime == "relative" && w.cell.R != nil && *w.cell.R == 0 {
					outcomes = append(outcomes, "dont-care:expires_in-0-treated-as-absent")
				} else {
					outcomes = append(outcomes, "stored-within-bound")
				}
			}
		}

		if cause != "" {
			if ent != nil {
				ent.cause = cause
			}

			if o.h.validEnd != nil && op.TTL > 0 {
				detail += fmt.Sprintf("; the entry is served until T0+%ds, the end of validity is T0%+ds", w.off+int(op.TTL/time.Second),
					int(o.h.validEnd.Sub(env.T0)/time.Second))
			}

			add(cause, fmt.Sprintf("at T0+%ds a Set was accepted by the %s cache: %s", w.off, w.cell.Cache, detail))
		}
	}

	// ---- (ii)/(iii) answered from cache ---------------------------------------
	if o.h.ok && w.def.primary != "" && o.calls[w.def.primary] == 0 && o.hitKey == "" {
		add("answered-without-remote-call-and-without-cache-hit", fmt.Sprintf("at T0+%ds: %s", w.off, o.h.what))
	}

	if !o.fromCache {
		// (iv) a verification key is not used past its certificate's NotAfter, wherever the key came from this time
		if o.h.ok && mech == "jwt-keys" && o.h.validEnd != nil && now.After(*o.h.validEnd) {
			add("verification-key-used-past-the-expiry-of-its-certificate",
				fmt.Sprintf("at T0+%ds (certificate expired at T0%+ds, not answered from the cache): %s", w.off,
					int(o.h.validEnd.Sub(env.T0)/time.Second), o.h.what))
		}

		if o.h.ok {
			stored := false

			for _, op := range o.ops {
				if op.Op == "set" && op.Reject == "" {
					stored = true
				}
			}

			if stored {
				outcomes = append(outcomes, "miss-then-stored")
			} else {
				outcomes = append(outcomes, "miss-not-stored")
			}
		}

		return fs, outcomes
	}

	ent := w.rec.entries[o.hitKey]

	explain := func() string {
		switch {
		case ent == nil:
			return "hit-without-recorded-set"
		case ent.cause != "":
			return ent.cause
		case ent.ttl > 0 && now.Sub(ent.storedAt) > ent.ttl:
			return "cache-returned-entry-past-its-ttl"
		default:
			return "served-beyond-validity-unexplained"
		}
	}

	entStr := "no recorded entry"
	if ent != nil {
		entStr = fmt.Sprintf("entry stored at T0+%ds with ttl %v", int(ent.storedAt.Sub(env.T0)/time.Second), ent.ttl)
	}

	bad := false

	if mech == "httpcache" {
		gen := now
		if o.h.issuedAt != nil {
			gen = *o.h.issuedAt
		}

		d := int(now.Sub(gen) / time.Second)

		switch {
		case !hr.storable || hr.life <= 0 || d > hr.life:
			bad = true

			add(explain(), fmt.Sprintf("at T0+%ds the response generated %ds earlier was served from the %s cache (freshness lifetime: %s; %s)",
				w.off, d, w.cell.Cache, lifeStr(hr), entStr))
		case hr.explicit && hr.age > 0 && hr.age+d > hr.life && !strictAge:
			outcomes = append(outcomes, "dont-care:fresh-by-reception-time-but-stale-by-Date-derived-age")
		case hr.explicit && hr.age > 0 && hr.age+d > hr.life:
			bad = true

			add("response-age-from-Date-header-ignored", fmt.Sprintf("at T0+%ds the response generated %ds earlier, whose Date was already %ds old, "+
				"was served from cache: current_age %ds > freshness lifetime %ds (%s)", w.off, d, hr.age, hr.age+d, hr.life, entStr))
		case hr.noCache:
			outcomes = append(outcomes, "dont-care:no-cache-response-reused-without-revalidation")
		case d == hr.life || (hr.explicit && hr.age > 0 && hr.age+d == hr.life):
			outcomes = append(outcomes, "dont-care:hit-at-exact-end-of-validity")
		}
	} else {
		if cfg != nil && *cfg == 0 {
			bad = true

			sig := "hit-although-configured-ttl-zero"
			if ent != nil && ent.cause != "" {
				sig = ent.cause
			}

			add(sig, fmt.Sprintf("at T0+%ds answered from the %s cache although the effective %s is 0s (%s; %s)", w.off, w.cell.Cache,
				w.def.ttlKey, o.h.what, entStr))
		}

		if !bad && o.h.validEnd != nil && now.After(*o.h.validEnd) {
			bad = true

			add(explain(), fmt.Sprintf("at T0+%ds answered from the %s cache, end of validity was T0%+ds (%s; %s)", w.off, w.cell.Cache,
				int(o.h.validEnd.Sub(env.T0)/time.Second), o.h.what, entStr))
		}

		if !bad && cfg != nil && ent != nil && now.Sub(ent.storedAt) > secs(*cfg) {
			bad = true

			add(explain(), fmt.Sprintf("at T0+%ds answered from the %s cache %v after storing although the effective %s is %ds (%s)",
				w.off, w.cell.Cache, now.Sub(ent.storedAt), w.def.ttlKey, *cfg, entStr))
		}

		if !bad {
			switch {
			case o.h.validEnd != nil && now.Equal(*o.h.validEnd):
				outcomes = append(outcomes, "dont-care:hit-at-exact-end-of-validity")
			case cfg != nil && ent != nil && now.Sub(ent.storedAt) == secs(*cfg):
				outcomes = append(outcomes, "dont-care:hit-at-exact-ttl-boundary")
			}
		}
	}

	if !bad {
		outcomes = append(outcomes, "hit-within-validity")
	}

	return fs, outcomes
}

// component names the piece of code a diagnosis belongs to, so that one cause has one signature: both client
// credentials users share clientcredentials.go; an entry returned past its ttl is the cache's doing, not the mechanism's.
func component(cell Cell, cause string) string {
	if cause == "cache-returned-entry-past-its-ttl" {
		return cell.Cache + "-cache"
	}

	switch cell.Mech {
	case "cc-finalizer", "cc-authstrategy":
		return "client-credentials"
	}

	return cell.Mech
}

func lifeStr(hr httpRef) string {
	if !hr.storable {
		return "not storable (" + hr.why + ")"
	}

	return fmt.Sprintf("%ds", hr.life)
}

type runResult struct {
	fp       string
	findings []finding
	outcomes []string
	trace    []string
	lastHit  bool
	lastSet  bool
	rejected error
}

// execHistory replays a history on fresh objects and evaluates the oracle for its last operation.
func execHistory(cell Cell, hist []Op) runResult {
	w, err := newWorld(cell)
	if err != nil {
		return runResult{rejected: err}
	}

	var res runResult

	for i, op := range hist {
		last := i == len(hist)-1

		if op.Kind == "advance" {
			w.off += op.D
			env.SetNow(w.now())

			res.trace = append(res.trace, fmt.Sprintf("advance %ds -> T0+%ds", op.D, w.off))

			continue
		}

		o := w.doRequest()
		fs, outs := w.judge(o)

		line := fmt.Sprintf("T0+%ds request: ", w.off)
		if o.h.ok {
			line += "ok (" + o.h.what + ")"
		} else {
			line += "failed (" + firstLine(o.h.err) + ")"
		}

		line += fmt.Sprintf(" remote=%v cache=[", sortedCalls(o.calls))

		for j, c := range o.ops {
			if j > 0 {
				line += " "
			}

			switch {
			case c.Op == "get" && c.Hit:
				line += "get:hit"
			case c.Op == "get":
				line += "get:miss"
			case c.Reject != "":
				line += fmt.Sprintf("set(ttl=%v):refused", c.TTL)
			default:
				line += fmt.Sprintf("set(ttl=%v)", c.TTL)
			}
		}

		line += "]"
		res.trace = append(res.trace, line)

		if last {
			res.findings, res.outcomes = fs, outs
			res.lastHit = o.fromCache

			for _, c := range o.ops {
				if c.Op == "set" && c.Reject == "" {
					res.lastSet = true
				}
			}
		}
	}

	res.fp = fmt.Sprintf("%d|%s", w.off, w.rec.fingerprint(env.T0))

	return res
}

func firstLine(s string) string {
	if i := strings.IndexByte(s, '\n'); i >= 0 {
		s = s[:i]
	}

	if len(s) > 160 {
		s = s[:160] + "…"
	}

	return s
}

func sortedCalls(m map[string]int) string {
	keys := make([]string, 0, len(m))
	for k := range m {
		keys = append(keys, k)
	}

	sort.Strings(keys)

	parts := make([]string, 0, len(keys))
	for _, k := range keys {
		parts = append(parts, fmt.Sprintf("%s:%d", k, m[k]))
	}

	return "{" + strings.Join(parts, ",") + "}"
}

// menu is the Δ menu of a cell: {1, R−leeway−1, R, R+leeway+1, TTL−1, TTL+1} (+ the exact boundaries in the thorough tier).
func menu(cell Cell, thorough bool) []int {
	def := mechDefs[cell.Mech]
	set := map[int]bool{1: true}

	addR := func(r, ml, vl int) {
		set[r-ml-1], set[r], set[r+vl+1] = true, true, true
		if thorough {
			set[r-ml], set[r+vl] = true, true
		}
	}

	addT := func(t int) {
		set[t-1], set[t+1] = true, true
		if thorough {
			set[t] = true
		}
	}

	switch cell.Mech {
	case "httpcache":
		hr := refHTTP(cell.HTTP)
		if hr.storable && hr.life > 0 {
			addR(hr.life, hr.age, 0)
		}

		addT(5)

		if cell.HTTP.DefaultTTL > 0 {
			addT(cell.HTTP.DefaultTTL)
		}
	case "jwt-finalizer":
		t := 300
		if e := cell.effTTL(def); e != nil {
			t = *e
		}

		addR(t, def.mechLeeway, def.mechLeeway)
		addT(t - def.mechLeeway)

		if cell.R != nil {
			addR(*cell.R, 1, 1)
		}
	default:
		if cell.R != nil {
			vl := def.mechLeeway
			if def.hasVLeeway {
				vl = cell.vLeeway(def)
			}

			addR(*cell.R, def.mechLeeway, vl)
		}

		if t := cell.effTTL(def); t != nil && *t > 0 {
			addT(*t)
		}
	}

	var out []int

	for d := range set {
		if d > 0 {
			out = append(out, d)
		}
	}

	sort.Ints(out)

	return out
}

// ---------------------------------------------------------------------------

func Check() *engine.Check {
	return &engine.Check{
		ID:    "C10",
		Level: "model_checking",
		Rule: "per cell (mechanism x cache semantics x remaining lifetime R of the credential/certificate/token x prototype ttl x rule level " +
			"override [x validity leeway]; for RFC 7234: Cache-Control x Expires x Date x default_ttl [x method]) an explicit-state BFS over " +
			"histories of request / advance(Δ), Δ from {1, R−leeway−1, R, R+leeway+1, TTL−1, TTL+1} (thorough: + exact boundaries), depth 3 (quick, " +
			"plus the directed 5-step probes request·advance(Δ)·request·advance(Δ)·request for every Δ) / 5 (thorough); every successor is built by replaying the history on fresh objects: catalogue -> production mechanism factory -> " +
			"prototype -> WithConfig -> Execute through a heimdall.Context on the virtual clock, remotes in process, recording cache around the " +
			"real in-memory cache or a Redis SET PX reference; state = (clock offset, recorded entries with store time and ttl); oracle (i) " +
			"every accepted Set has 0 < ttl <= min(configured, remaining lifetime − documented leeway), none when that is <= 0 or the ttl is 0, " +
			"(ii) answered without remote call at t => t <= end of validity and t − stored <= configured ttl, (iii) ttl 0 => never a hit, (iv) a token is never verified with a key whose certificate has expired, also when the key was just fetched. " +
			"A history is non-trivial if its last request was answered from cache or stored an entry.",
		Assumptions: []string{
			"remotes are pure functions of the request and the virtual time: the presented credential / served certificate has the fixed expiry " +
				"T0+R (the introspection / identity endpoint keeps answering active:true — heimdall's own validity check with its leeway decides); " +
				"tokens obtained from the token endpoint and issued by the jwt finalizer live R seconds from their issuance; HTTP response headers are " +
				"relative to the time of the response",
			"map iteration order is pinned (seed 0) during Execute; the influence of the order on cache keys is C11's subject",
			"the in-memory cache's janitor goroutine is not started (it removes only entries Get does not return anyway); Redis is represented " +
				"by a reference with SET PX semantics (non-positive PX refused, key gone at its expiry instant), not by the real client",
			"leeways: 5 s for client credentials and the jwt finalizer are documented and part of the bound; the 10 s the introspection / generic / " +
				"jwt authenticators keep away from the expiry are not documented: ttl values between (remaining − 10 s) and the end of validity are " +
				"don't-care; validity leeway unset = 10 s (assertions: documented; session_lifespan: docs say 0, code 10 s — the larger bounds the oracle); " +
				"hits exactly at the end of validity / at stored+ttl, expires_in: 0, and reuse of a `no-cache` response are don't-care and counted",
			"RFC 7234 reference: lifetime = max-age, else Expires − Date (Date absent = reception), else default_ttl (none if 0); age on arrival = " +
				"reception − Date; served at t is stale if (t − reception) > lifetime; whether the Date-derived age of an explicit lifetime also counts " +
				"(RFC 7234 4.2.3) is not settled by the statement: counted as don't-care (VERIF_C10_STRICT_AGE=1 makes it a violation)",
		},
		Shards: func(tier string) int {
			if tier == "thorough" {
				return 16
			}

			return 8
		},
		Budget: func(tier string) time.Duration {
			if tier == "thorough" {
				return 14 * time.Minute
			}

			return 80 * time.Second
		},
		Run:    run,
		Replay: replay,
	}
}

func run(c *engine.Ctx) {
	defer cleanupFixture()
	defer env.ClearNow()

	// the process lives in a zone west of UTC (times written without a zone are UTC whatever the zone of the host is)
	time.Local = time.FixedZone("verif-west", -8*3600)

	thorough := !c.Quick()
	depth := 3

	if thorough {
		depth = 5
	}

	all := cells(thorough)
	if c.Shard == 0 {
		c.Count("cells_total", int64(len(all)))
	}

	for i, cell := range all {
		if !c.Mine(i) {
			continue
		}

		if expired(c) {
			return
		}

		bfsCell(c, cell, depth, thorough)
	}
}

// expired consults the engine's wall-clock deadline with the virtual clock switched off (every history sets it anew).
func expired(c *engine.Ctx) bool {
	env.ClearNow()

	return c.Expired()
}

func bfsCell(c *engine.Ctx, cell Cell, depth int, thorough bool) {
	init := execHistory(cell, nil)
	if init.rejected != nil {
		c.Outcome("configuration-refused")
		c.Count("cells_configuration_refused", 1)
		c.Eval(1)

		if cell.Mech != "jwt-finalizer" {
			// only the jwt finalizer alphabet contains values the documentation forbids (ttl <= 1s)
			c.Violation(cell.Mech+"/valid-configuration-refused", cell.String()+": "+firstLine(init.rejected.Error()), Case{Cell: cell})
		}

		return
	}

	c.Count("cells_explored:"+cell.Mech, 1)

	ops := []Op{{Kind: "request"}}
	for _, d := range menu(cell, thorough) {
		ops = append(ops, Op{Kind: "advance", D: d})
	}

	seen := map[string]bool{init.fp: true}
	frontier := [][]Op{nil}

	c.States(1)

	for d := 1; d <= depth && len(frontier) > 0; d++ {
		var next [][]Op

		for _, h := range frontier {
			if expired(c) {
				return
			}

			for _, op := range ops {
				// two consecutive advances reach the same state as other histories only if the sums agree; the
				// fingerprint decides, nothing is pruned by hand
				hist := append(append([]Op{}, h...), op)
				res := execHistory(cell, hist)

				c.Transitions(1)
				c.Traces(1)
				c.Eval(1)

				for _, o := range res.outcomes {
					c.Outcome(o)
				}

				if res.lastHit || res.lastSet {
					c.Nontrivial(cell.String() + "|" + histStr(hist))
				}

				for _, f := range res.findings {
					c.Violation(f.sig, cell.String()+" ["+histStr(hist)+"]: "+f.msg, Case{Cell: cell, Hist: hist, Trace: res.trace})
				}

				if c.WantSample() && res.lastHit && len(hist) >= 3 {
					c.Sample(map[string]any{"cell": cell.String(), "history": histStr(hist), "trace": res.trace})
				}

				if seen[res.fp] {
					continue
				}

				seen[res.fp] = true

				c.States(1)

				next = append(next, hist)
			}
		}

		frontier = next
	}

	if depth >= 5 {
		return
	}

	// directed deep probes beyond the BFS bound (sliding expiration needs two hits): request, advance(Δ), request,
	// advance(Δ), request for every Δ of the menu. Subsumed by the BFS when its depth is >= 5.
	for _, op := range ops[1:] {
		hist := []Op{{Kind: "request"}, op, {Kind: "request"}, op, {Kind: "request"}}
		res := execHistory(cell, hist)

		c.Transitions(1)
		c.Traces(1)
		c.Eval(1)
		c.Count("deep_probe_histories", 1)

		for _, o := range res.outcomes {
			c.Outcome(o)
		}

		if res.lastHit || res.lastSet {
			c.Nontrivial(cell.String() + "|" + histStr(hist))
		}

		for _, f := range res.findings {
			c.Violation(f.sig, cell.String()+" ["+histStr(hist)+"]: "+f.msg, Case{Cell: cell, Hist: hist, Trace: res.trace})
		}
	}
}

func replay(c *engine.Ctx, raw json.RawMessage) {
	defer cleanupFixture()
	defer env.ClearNow()

	time.Local = time.FixedZone("verif-west", -8*3600)

	var cs Case
	if err := json.Unmarshal(raw, &cs); err != nil {
		c.Infra("bad replay: %v", err)

		return
	}

	res := execHistory(cs.Cell, cs.Hist)
	if res.rejected != nil {
		fmt.Printf("replay: %s: configuration refused: %v\n", cs.Cell, res.rejected)

		if cs.Cell.Mech != "jwt-finalizer" {
			c.Violation(cs.Cell.Mech+"/valid-configuration-refused", res.rejected.Error(), cs)
		}

		return
	}

	fmt.Printf("replay: %s\n", cs.Cell)

	for _, l := range res.trace {
		fmt.Println("  " + l)
	}

	for _, f := range res.findings {
		c.Violation(f.sig, f.msg, cs)
	}
}
