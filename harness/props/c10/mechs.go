package c10

import (
	"encoding/base64"
	"encoding/json"
	"fmt"
	"net/http"
	"net/url"
	"strconv"
	"strings"
	"time"

	"github.com/dadrus/heimdall/internal/cache"
	"github.com/dadrus/heimdall/internal/config"
	"github.com/dadrus/heimdall/internal/rules/mechanisms"
	"github.com/dadrus/heimdall/internal/rules/mechanisms/subject"

	"github.com/dadrus/heimdall/verif/env"
	"github.com/dadrus/heimdall/verif/hx"
)

const (
	hostIDP = "idp.local"
	hostAPI = "api.local"
)

func itoa(i int) string { return strconv.Itoa(i) }
func intp(i int) *int   { return &i }

func secs(i int) time.Duration { return time.Duration(i) * time.Second }
func durStr(i int) string      { return itoa(i) + "s" }

// HTTPCell is the response shape of the remote endpoint for the RFC 7234 cells.
type HTTPCell struct {
	CacheControl string `json:"cache_control"` // "" = absent
	Expires      string `json:"expires"`       // "" | past | +5s
	Date         string `json:"date"`          // "" | now | now-10s
	DefaultTTL   int    `json:"default_ttl_s"`
	Method       string `json:"method"`
	// Through: "" = the endpoint of a generic contextualizer; "metadata-endpoint" = the metadata endpoint of a jwt
	// authenticator (whose http_cache has defaults of its own when it is not configured at all)
	Through string `json:"through,omitempty"`
	// TTLOmitted: http_cache is configured with `enabled: true` only (default_ttl then is 0)
	TTLOmitted bool `json:"default_ttl_omitted,omitempty"`
}

// Cell is one point of the configuration alphabet.
type Cell struct {
	Mech     string    `json:"mechanism"`
	Cache    string    `json:"cache"`                          // memory | redis
	R        *int      `json:"remaining_lifetime_s,omitempty"` // nil = the credential/certificate/token carries no expiry
	Proto    *int      `json:"prototype_ttl_s,omitempty"`      // nil = unset
	OverMode string    `json:"rule_override"`                  // none | without-ttl | ttl
	Over     *int      `json:"rule_override_ttl_s,omitempty"`  // with OverMode == ttl
	VLeeway  *int      `json:"validity_leeway_s,omitempty"`    // nil = unset
	HTTP     *HTTPCell `json:"http,omitempty"`
}

func pstr(p *int) string {
	if p == nil {
		return "-"
	}

	return itoa(*p)
}

func (c Cell) String() string {
	s := fmt.Sprintf("%s/%s R=%s proto=%s over=%s", c.Mech, c.Cache, pstr(c.R), pstr(c.Proto), c.OverMode)
	if c.OverMode == "ttl" {
		s += ":" + pstr(c.Over)
	}

	if c.VLeeway != nil {
		s += " vleeway=" + pstr(c.VLeeway)
	}

	if c.HTTP != nil {
		s += fmt.Sprintf(" %s cc=%q expires=%q date=%q default_ttl=%d", c.HTTP.Method, c.HTTP.CacheControl, c.HTTP.Expires,
			c.HTTP.Date, c.HTTP.DefaultTTL)
	}

	return s
}

// mechDef: what the documentation says about one mechanism's caching.
type mechDef struct {
	name string
	// lifetime: absolute (expiry fixed at T0+R: a presented credential / a certificate), relative (R counted from the
	// moment the artefact is issued / obtained), none, http
	lifetime string
	// mechLeeway: seconds the mechanism keeps away from the expiry when caching; documented tells whether the docs
	// promise it (then it is part of the bound) or it is an implementation choice (then the margin is don't-care)
	mechLeeway int
	documented bool
	// defaultVLeeway: validity leeway in force when none is configured (the larger of docs and code where they differ)
	defaultVLeeway int
	hasVLeeway     bool
	// unsetTTL: meaning of an unset cache_ttl per docs: nil = "only the lifetime of the artefact bounds caching"
	unsetTTL *int
	ttlKey   string // config key of the ttl
	neutral  map[string]any
	primary  string // host whose being called means "not answered from cache"
	noOver   bool   // ttl not overridable on rule level
}

var mechDefs = map[string]*mechDef{
	// docs authenticators.adoc "OAuth2 Introspection": unset => caching based on token expiry; 0s disables; >0 => expiry
	// considered. assertions.validity_leeway defaults to 10 s. The 10 s kept away from the expiry are not documented.
	"introspection": {name: "introspection", lifetime: "absolute", mechLeeway: 10, defaultVLeeway: 10, hasVLeeway: true,
		ttlKey: "cache_ttl", neutral: map[string]any{"allow_fallback_on_error": false}, primary: hostIDP},
	// docs "Generic": "If not set, response caching if disabled"; session_lifespan.not_after bounds the ttl.
	// validity_leeway: docs say default 0, code uses 10 s => the larger one bounds the oracle.
	"generic": {name: "generic", lifetime: "absolute", mechLeeway: 10, defaultVLeeway: 10, hasVLeeway: true, unsetTTL: intp(0),
		ttlKey: "cache_ttl", neutral: map[string]any{"allow_fallback_on_error": false}, primary: hostIDP},
	// docs "JWT": unset => 10 minutes. Keys with a certificate: never used past NotAfter (statement).
	"jwt-keys": {name: "jwt-keys", lifetime: "absolute", mechLeeway: 10, unsetTTL: intp(600),
		ttlKey: "cache_ttl", neutral: map[string]any{"allow_fallback_on_error": false}, primary: hostIDP},
	// docs finalizers.adoc "JWT": `ttl` is the validity of the token; "always cached until 5 seconds before its expiration".
	"jwt-finalizer": {name: "jwt-finalizer", lifetime: "relative", mechLeeway: 5, documented: true,
		ttlKey: "ttl", neutral: map[string]any{"claims": "{}"}},
	// docs "OAuth2 Client Credentials": unset => expires_in; both => shorter; "cached until 5 seconds before its
	// expiration"; 0s disables.
	"cc-finalizer": {name: "cc-finalizer", lifetime: "relative", mechLeeway: 5, documented: true,
		ttlKey: "cache_ttl", neutral: map[string]any{"header": map[string]any{"name": "Authorization", "scheme": "Bearer"}},
		primary: hostIDP},
	"cc-authstrategy": {name: "cc-authstrategy", lifetime: "relative", mechLeeway: 5, documented: true,
		ttlKey: "cache_ttl", primary: hostIDP, noOver: true},
	// docs authorizers.adoc "Remote": "Defaults to 0s, which means no caching" (overridable)
	"remote-authz": {name: "remote-authz", lifetime: "none", unsetTTL: intp(0),
		ttlKey: "cache_ttl", neutral: map[string]any{"forward_response_headers_to_upstream": []string{"X-None"}}, primary: hostAPI},
	// docs contextualizers.adoc "Generic": "Defaults to 10 seconds" (overridable)
	"contextualizer": {name: "contextualizer", lifetime: "none", unsetTTL: intp(10),
		ttlKey: "cache_ttl", neutral: map[string]any{"continue_pipeline_on_error": false}, primary: hostAPI},
	// endpoint http_cache (RFC 7234) reached through a generic contextualizer whose own cache is switched off
	"httpcache": {name: "httpcache", lifetime: "http", primary: hostAPI, noOver: true},
}

// effTTL is the configured TTL in force per documentation (nil: none, only the artefact's lifetime bounds caching).
func (c Cell) effTTL(def *mechDef) *int {
	if c.OverMode == "ttl" {
		return c.Over
	}

	if c.Proto != nil {
		return c.Proto
	}

	return def.unsetTTL
}

func (c Cell) vLeeway(def *mechDef) int {
	if !def.hasVLeeway {
		return 0
	}

	if c.VLeeway != nil {
		return *c.VLeeway
	}

	return def.defaultVLeeway
}

// ---------------------------------------------------------------------------

// handed is what one request handed out / accepted.
type handed struct {
	ok       bool
	err      string
	validEnd *time.Time // end of validity of the artefact that was accepted / handed out (nil: none / don't-care)
	issuedAt *time.Time // generation instant of the artefact where it is observable
	what     string
}

type world struct {
	cell  Cell
	def   *mechDef
	rec   *recCache
	off   int
	tr    *env.Transport
	req   func(w *world) handed
	calls map[string]int
}

func (w *world) now() time.Time { return env.T0.Add(secs(w.off)) }

func (w *world) ctx() *hx.Ctx {
	ctx := hx.NewCtx("GET", "http://app.local/resource")
	ctx.AppCtx = cache.WithContext(ctx.AppCtx, w.rec)

	return ctx
}

func jsonReply(r *env.Recorded, body any, hdr map[string]string) (*http.Response, error) {
	b, _ := json.Marshal(body)
	resp := env.Reply(nil, http.StatusOK, "application/json", string(b))

	for k, v := range hdr {
		resp.Header.Set(k, v)
	}

	return resp, nil
}

var theTransport *env.Transport

func transport() *env.Transport {
	if theTransport == nil {
		theTransport = env.NewTransport()
		theTransport.Install()
	}

	return theTransport
}

func hostOf(url string) string {
	s := strings.TrimPrefix(url, "http://")
	if i := strings.IndexByte(s, '/'); i >= 0 {
		s = s[:i]
	}

	return s
}

// newWorld builds fresh real objects for one cell: catalogue -> production mechanism factory -> prototype ->
// (rule level WithConfig) -> mechanism; a fresh recording cache; in-process remotes. The clock is set to T0.
func newWorld(cell Cell) (*world, error) {
	def := mechDefs[cell.Mech]
	if def == nil {
		return nil, fmt.Errorf("unknown mechanism %q", cell.Mech)
	}

	w := &world{cell: cell, def: def, rec: newRecCache(cell.Cache), tr: transport()}
	w.tr.Handlers = map[string]env.Responder{}
	w.tr.Reset()
	env.SetNow(w.now())

	var over config.MechanismConfig

	switch cell.OverMode {
	case "without-ttl":
		over = config.MechanismConfig{}
		for k, v := range def.neutral {
			over[k] = v
		}
	case "ttl":
		over = config.MechanismConfig{def.ttlKey: durStr(*cell.Over)}
	}

	var err error

	switch cell.Mech {
	case "introspection":
		err = w.buildIntrospection(over)
	case "generic":
		err = w.buildGeneric(over)
	case "jwt-keys":
		err = w.buildJWTKeys(over)
	case "jwt-finalizer":
		err = w.buildJWTFinalizer(over)
	case "cc-finalizer":
		err = w.buildCCFinalizer(over)
	case "cc-authstrategy":
		err = w.buildCCAuthStrategy()
	case "remote-authz":
		err = w.buildRemoteAuthz(over)
	case "contextualizer":
		err = w.buildContextualizer(over)
	case "httpcache":
		err = w.buildHTTPCache()
	}

	if err != nil {
		return nil, err
	}

	return w, nil
}

func factoryFor(p *config.MechanismPrototypes) (mechanisms.MechanismFactory, error) {
	return hx.RealFactory(p)
}

func (w *world) setTTL(conf map[string]any) {
	if w.cell.Proto != nil {
		conf[w.def.ttlKey] = durStr(*w.cell.Proto)
	}
}

// absolute expiry of the presented credential / certificate
func (w *world) absExpiry() *time.Time {
	if w.cell.R == nil {
		return nil
	}

	t := env.T0.Add(secs(*w.cell.R))

	return &t
}

func (w *world) absValidEnd() *time.Time {
	e := w.absExpiry()
	if e == nil {
		return nil
	}

	t := e.Add(secs(w.cell.vLeeway(w.def)))

	return &t
}

// --- oauth2_introspection authenticator ------------------------------------

func (w *world) buildIntrospection(over config.MechanismConfig) error {
	ass := map[string]any{"issuers": []string{"iss"}}
	if w.cell.VLeeway != nil {
		ass["validity_leeway"] = durStr(*w.cell.VLeeway)
	}

	conf := map[string]any{
		"introspection_endpoint": map[string]any{"url": "http://" + hostIDP + "/introspect"},
		"assertions":             ass,
	}
	w.setTTL(conf)

	f, err := factoryFor(&config.MechanismPrototypes{Authenticators: []config.Mechanism{
		{ID: "m", Type: "oauth2_introspection", Config: conf},
	}})
	if err != nil {
		return err
	}

	a, err := f.CreateAuthenticator("", "m", over)
	if err != nil {
		return err
	}

	// the introspection endpoint is a pure function of the request: the token's own expiry is fixed
	w.tr.Handlers[hostIDP] = func(r *env.Recorded) (*http.Response, error) {
		body := map[string]any{"active": true, "iss": "iss", "sub": "alice"}
		if e := w.absExpiry(); e != nil {
			body["exp"] = e.Unix()
		}

		return jsonReply(r, body, nil)
	}

	w.req = func(w *world) handed {
		ctx := w.ctx()
		ctx.ReqHeader["Authorization"] = "Bearer opaque-token-1"

		sub, err := a.Execute(ctx)
		if err != nil {
			return handed{err: err.Error()}
		}

		return handed{ok: true, validEnd: w.absValidEnd(), what: "subject " + sub.ID}
	}

	return nil
}

// --- generic authenticator with session_lifespan ----------------------------

func (w *world) buildGeneric(over config.MechanismConfig) error {
	// the session was issued an hour before it is first seen (issued_at; only named by the identity provider that writes
	// seconds since the epoch), it ends R seconds after T0 (not_after)
	sl := map[string]any{"active": "active", "not_after": "exp", "issued_at": "iat"}
	// with a configured leeway the identity provider writes its times as text without a zone (UTC by the documentation of
	// time.Parse; the process runs in a zone west of UTC, see run), else as seconds since the epoch
	const zoneless = "2006-01-02 15:04:05"

	stamp := func(t time.Time) any { return t.Unix() }

	if w.cell.VLeeway != nil {
		sl["validity_leeway"] = durStr(*w.cell.VLeeway)
		sl["time_format"] = zoneless
		stamp = func(t time.Time) any { return t.UTC().Format(zoneless) }
	}

	conf := map[string]any{
		"identity_info_endpoint":     map[string]any{"url": "http://" + hostIDP + "/whoami", "method": "GET"},
		"authentication_data_source": []any{map[string]any{"header": "X-Session"}},
		"subject":                    map[string]any{"id": "sub"},
		"session_lifespan":           sl,
	}
	w.setTTL(conf)

	f, err := factoryFor(&config.MechanismPrototypes{Authenticators: []config.Mechanism{
		{ID: "m", Type: "generic", Config: conf},
	}})
	if err != nil {
		return err
	}

	a, err := f.CreateAuthenticator("", "m", over)
	if err != nil {
		return err
	}

	w.tr.Handlers[hostIDP] = func(r *env.Recorded) (*http.Response, error) {
		body := map[string]any{"active": true, "sub": "alice"}
		if w.cell.VLeeway == nil {
			body["iat"] = stamp(env.T0.Add(-time.Hour))
		}

		if e := w.absExpiry(); e != nil {
			body["exp"] = stamp(*e)
		}

		return jsonReply(r, body, nil)
	}

	w.req = func(w *world) handed {
		ctx := w.ctx()
		ctx.ReqHeader["X-Session"] = "session-1"

		sub, err := a.Execute(ctx)
		if err != nil {
			return handed{err: err.Error()}
		}

		return handed{ok: true, validEnd: w.absValidEnd(), what: "subject " + sub.ID}
	}

	return nil
}

// --- jwt authenticator, key cache --------------------------------------------

func (w *world) buildJWTKeys(over config.MechanismConfig) error {
	fix := getFixture()

	conf := map[string]any{
		"jwks_endpoint": map[string]any{"url": "http://" + hostIDP + "/jwks"},
		"assertions":    map[string]any{"issuers": []string{"iss"}},
		"trust_store":   fix.trustPath,
	}
	w.setTTL(conf)

	f, err := factoryFor(&config.MechanismPrototypes{Authenticators: []config.Mechanism{
		{ID: "m", Type: "jwt", Config: conf},
	}})
	if err != nil {
		return err
	}

	a, err := f.CreateAuthenticator("", "m", over)
	if err != nil {
		return err
	}

	jwks := fix.jwksFor(w.cell.R)

	w.tr.Handlers[hostIDP] = func(*env.Recorded) (*http.Response, error) {
		return env.Reply(nil, http.StatusOK, "application/json", jwks), nil
	}

	w.req = func(w *world) handed {
		ctx := w.ctx()
		ctx.ReqHeader["Authorization"] = "Bearer " + fix.jwt

		sub, err := a.Execute(ctx)
		if err != nil {
			return handed{err: err.Error()}
		}

		// the verification key may be used up to its certificate's NotAfter
		return handed{ok: true, validEnd: w.absExpiry(), what: "subject " + sub.ID + " verified with k1"}
	}

	return nil
}

// --- jwt finalizer -----------------------------------------------------------

func jwtTimes(tok string) (iat, exp time.Time, err error) {
	parts := strings.Split(tok, ".")
	if len(parts) != 3 {
		return iat, exp, fmt.Errorf("not a compact JWS: %q", tok)
	}

	raw, err := base64.RawURLEncoding.DecodeString(parts[1])
	if err != nil {
		return iat, exp, err
	}

	var cl struct {
		Iat int64 `json:"iat"`
		Exp int64 `json:"exp"`
	}

	if err = json.Unmarshal(raw, &cl); err != nil {
		return iat, exp, err
	}

	return time.Unix(cl.Iat, 0), time.Unix(cl.Exp, 0), nil
}

func (w *world) buildJWTFinalizer(over config.MechanismConfig) error {
	fix := getFixture()

	ks := fix.ksPath
	if w.cell.R != nil {
		// the signing key comes with a certificate that expires R seconds after T0
		ks = fix.ksCertPath
	}

	conf := map[string]any{"signer": map[string]any{"key_store": map[string]any{"path": ks}}}
	w.setTTL(conf)

	f, err := factoryFor(&config.MechanismPrototypes{Finalizers: []config.Mechanism{{ID: "m", Type: "jwt", Config: conf}}})
	if err != nil {
		return err
	}

	fin, err := f.CreateFinalizer("", "m", over)
	if err != nil {
		return err
	}

	w.req = func(w *world) handed {
		ctx := w.ctx()

		if err := fin.Execute(ctx, &subject.Subject{ID: "alice", Attributes: map[string]any{}}); err != nil {
			return handed{err: err.Error()}
		}

		vals := ctx.Headers["Authorization"]
		if len(vals) != 1 {
			return handed{err: fmt.Sprintf("no token header: %v", ctx.Headers)}
		}

		iat, exp, err := jwtTimes(strings.TrimPrefix(vals[0], "Bearer "))
		if err != nil {
			return handed{err: "issued token unreadable: " + err.Error()}
		}

		return handed{ok: true, validEnd: &exp, issuedAt: &iat, what: fmt.Sprintf("jwt iat=T0%+d exp=T0%+d",
			int(iat.Sub(env.T0)/time.Second), int(exp.Sub(env.T0)/time.Second))}
	}

	return nil
}

// --- oauth2_client_credentials ------------------------------------------------

// tokenEndpoint issues "at.<issued unix>.<expiry unix|none>"; expires_in is R (relative to the issuance).
func (w *world) tokenEndpoint() env.Responder {
	return func(r *env.Recorded) (*http.Response, error) {
		now := time.Now()
		exp := "none"

		body := map[string]any{"token_type": "Bearer"}

		if w.cell.R != nil {
			body["expires_in"] = *w.cell.R
			// expires_in 0 is "absent" for encoding/json omitempty based clients and "expired at once" by RFC 6749: don't-care
			if *w.cell.R != 0 {
				exp = strconv.FormatInt(now.Add(secs(*w.cell.R)).Unix(), 10)
			} else {
				exp = "dontcare"
			}
		}

		body["access_token"] = fmt.Sprintf("at.%d.%s", now.Unix(), exp)

		return jsonReply(r, body, nil)
	}
}

func accessTokenTimes(tok string) (handed, bool) {
	parts := strings.Split(tok, ".")
	if len(parts) != 3 || parts[0] != "at" {
		return handed{err: "unexpected access token " + tok}, false
	}

	iatU, err := strconv.ParseInt(parts[1], 10, 64)
	if err != nil {
		return handed{err: "unexpected access token " + tok}, false
	}

	iat := time.Unix(iatU, 0)
	h := handed{ok: true, issuedAt: &iat, what: fmt.Sprintf("access token issued T0%+d exp %s", int(iat.Sub(env.T0)/time.Second), parts[2])}

	if expU, err := strconv.ParseInt(parts[2], 10, 64); err == nil {
		exp := time.Unix(expU, 0)
		h.validEnd = &exp
		h.what = fmt.Sprintf("access token issued T0%+d exp T0%+d", int(iat.Sub(env.T0)/time.Second), int(exp.Sub(env.T0)/time.Second))
	}

	return h, true
}

func (w *world) buildCCFinalizer(over config.MechanismConfig) error {
	conf := map[string]any{"token_url": "http://" + hostIDP + "/token", "client_id": "cid", "client_secret": "secret"}
	w.setTTL(conf)

	f, err := factoryFor(&config.MechanismPrototypes{Finalizers: []config.Mechanism{
		{ID: "m", Type: "oauth2_client_credentials", Config: conf},
	}})
	if err != nil {
		return err
	}

	fin, err := f.CreateFinalizer("", "m", over)
	if err != nil {
		return err
	}

	w.tr.Handlers[hostIDP] = w.tokenEndpoint()

	w.req = func(w *world) handed {
		ctx := w.ctx()

		if err := fin.Execute(ctx, &subject.Subject{ID: "alice", Attributes: map[string]any{}}); err != nil {
			return handed{err: err.Error()}
		}

		vals := ctx.Headers["Authorization"]
		if len(vals) != 1 {
			return handed{err: fmt.Sprintf("no token header: %v", ctx.Headers)}
		}

		h, _ := accessTokenTimes(strings.TrimPrefix(vals[0], "Bearer "))

		return h
	}

	return nil
}

func (w *world) buildCCAuthStrategy() error {
	cc := map[string]any{"token_url": "http://" + hostIDP + "/token", "client_id": "cid", "client_secret": "secret"}
	w.setTTL(cc)

	conf := map[string]any{
		"endpoint": map[string]any{
			"url": "http://" + hostAPI + "/data", "method": "GET",
			"auth": map[string]any{"type": "oauth2_client_credentials", "config": cc},
		},
		"cache_ttl": "0s", // the contextualizer's own cache is off: every request authenticates against the API
	}

	f, err := factoryFor(&config.MechanismPrototypes{Contextualizers: []config.Mechanism{{ID: "m", Type: "generic", Config: conf}}})
	if err != nil {
		return err
	}

	m, err := f.CreateContextualizer("", "m", nil)
	if err != nil {
		return err
	}

	w.tr.Handlers[hostIDP] = w.tokenEndpoint()

	var presented string

	w.tr.Handlers[hostAPI] = func(r *env.Recorded) (*http.Response, error) {
		presented = r.Header.Get("Authorization")

		return jsonReply(r, map[string]any{"ok": true}, nil)
	}

	w.req = func(w *world) handed {
		presented = ""
		ctx := w.ctx()

		if err := m.Execute(ctx, &subject.Subject{ID: "alice", Attributes: map[string]any{}}); err != nil {
			return handed{err: err.Error()}
		}

		h, _ := accessTokenTimes(strings.TrimPrefix(presented, "Bearer "))

		return h
	}

	return nil
}

// --- remote authorizer / generic contextualizer (cache_ttl and its rule level override) ------------

func genReply(r *env.Recorded) (*http.Response, error) {
	return jsonReply(r, map[string]any{"gen": time.Now().Unix()}, nil)
}

func genOf(out any) *time.Time {
	m, ok := out.(map[string]any)
	if !ok {
		return nil
	}

	var u int64

	switch v := m["gen"].(type) {
	case float64:
		u = int64(v)
	case int64:
		u = v
	case json.Number:
		u, _ = v.Int64()
	default:
		return nil
	}

	t := time.Unix(u, 0)

	return &t
}

func (w *world) buildRemoteAuthz(over config.MechanismConfig) error {
	conf := map[string]any{"endpoint": map[string]any{"url": "http://" + hostAPI + "/authz"}, "payload": "{}"}
	w.setTTL(conf)

	f, err := factoryFor(&config.MechanismPrototypes{Authorizers: []config.Mechanism{{ID: "m", Type: "remote", Config: conf}}})
	if err != nil {
		return err
	}

	m, err := f.CreateAuthorizer("", "m", over)
	if err != nil {
		return err
	}

	w.tr.Handlers[hostAPI] = genReply

	w.req = func(w *world) handed {
		ctx := w.ctx()

		if err := m.Execute(ctx, &subject.Subject{ID: "alice", Attributes: map[string]any{}}); err != nil {
			return handed{err: err.Error()}
		}

		g := genOf(ctx.Outputs()["m"])
		if g == nil {
			return handed{err: fmt.Sprintf("authorization payload missing in outputs: %v", ctx.Outputs())}
		}

		return handed{ok: true, issuedAt: g, what: fmt.Sprintf("authorization answer generated T0%+d", int(g.Sub(env.T0)/time.Second))}
	}

	return nil
}

func (w *world) buildContextualizer(over config.MechanismConfig) error {
	conf := map[string]any{"endpoint": map[string]any{"url": "http://" + hostAPI + "/ctx"}}
	w.setTTL(conf)

	f, err := factoryFor(&config.MechanismPrototypes{Contextualizers: []config.Mechanism{{ID: "m", Type: "generic", Config: conf}}})
	if err != nil {
		return err
	}

	m, err := f.CreateContextualizer("", "m", over)
	if err != nil {
		return err
	}

	w.tr.Handlers[hostAPI] = genReply

	w.req = func(w *world) handed {
		ctx := w.ctx()

		if err := m.Execute(ctx, &subject.Subject{ID: "alice", Attributes: map[string]any{}}); err != nil {
			return handed{err: err.Error()}
		}

		g := genOf(ctx.Outputs()["m"])
		if g == nil {
			return handed{err: fmt.Sprintf("contextualizer payload missing in outputs: %v", ctx.Outputs())}
		}

		return handed{ok: true, issuedAt: g, what: fmt.Sprintf("context generated T0%+d", int(g.Sub(env.T0)/time.Second))}
	}

	return nil
}

// --- RFC 7234 cache of an endpoint ----------------------------------------------

// the RFC 7234 layer in front of the metadata endpoint of a jwt authenticator: the document names the jwks_uri, which
// carries the time the document was generated, so that the key request tells which document was in use.
func (w *world) buildHTTPCacheMetadata() error {
	h := w.cell.HTTP
	fix := getFixture()

	hc := map[string]any{"enabled": true}
	if !h.TTLOmitted {
		hc["default_ttl"] = durStr(h.DefaultTTL)
	}

	conf := map[string]any{
		"metadata_endpoint": map[string]any{
			"url": "http://" + hostAPI + "/meta", "disable_issuer_identifier_verification": true, "http_cache": hc,
		},
		"trust_store": fix.trustPath,
		"cache_ttl":   "0s", // only the RFC 7234 layer caches
	}

	f, err := factoryFor(&config.MechanismPrototypes{Authenticators: []config.Mechanism{{ID: "m", Type: "jwt", Config: conf}}})
	if err != nil {
		return err
	}

	a, err := f.CreateAuthenticator("", "m", nil)
	if err != nil {
		return err
	}

	w.tr.Handlers[hostAPI] = func(r *env.Recorded) (*http.Response, error) {
		now := time.Now().UTC()

		return jsonReply(r, map[string]any{"issuer": "iss", "jwks_uri": fmt.Sprintf("http://%s/jwks?gen=%d", hostIDP, now.Unix())},
			h.responseHeaders(now))
	}

	jwks := fix.jwksFor(nil)

	var gen *time.Time

	w.tr.Handlers[hostIDP] = func(r *env.Recorded) (*http.Response, error) {
		if u, perr := url.Parse(r.URL); perr == nil {
			if n, cerr := strconv.ParseInt(u.Query().Get("gen"), 10, 64); cerr == nil {
				t := time.Unix(n, 0)
				gen = &t
			}
		}

		return env.Reply(nil, http.StatusOK, "application/json", jwks), nil
	}

	w.req = func(w *world) handed {
		ctx := w.ctx()
		ctx.ReqHeader["Authorization"] = "Bearer " + fix.jwt
		gen = nil

		if _, err := a.Execute(ctx); err != nil {
			return handed{err: err.Error()}
		}

		if gen == nil {
			return handed{err: "the keys were not asked for at a jwks_uri of a metadata document"}
		}

		return handed{ok: true, issuedAt: gen, what: fmt.Sprintf("metadata document generated T0%+d", int(gen.Sub(env.T0)/time.Second))}
	}

	return nil
}

func (h *HTTPCell) responseHeaders(now time.Time) map[string]string {
	hdr := map[string]string{}

	if h.CacheControl != "" {
		hdr["Cache-Control"] = h.CacheControl
	}

	switch h.Expires {
	case "past":
		hdr["Expires"] = now.Add(-time.Hour).Format(http.TimeFormat)
	case "+5s":
		hdr["Expires"] = now.Add(5 * time.Second).Format(http.TimeFormat)
	}

	switch h.Date {
	case "now":
		hdr["Date"] = now.Format(http.TimeFormat)
	case "now-10s":
		hdr["Date"] = now.Add(-10 * time.Second).Format(http.TimeFormat)
	}

	return hdr
}

func (w *world) buildHTTPCache() error {
	h := w.cell.HTTP

	if h.Through == "metadata-endpoint" {
		return w.buildHTTPCacheMetadata()
	}

	conf := map[string]any{
		"endpoint": map[string]any{
			"url": "http://" + hostAPI + "/data", "method": h.Method,
			"http_cache": map[string]any{"enabled": true, "default_ttl": durStr(h.DefaultTTL)},
		},
		"cache_ttl": "0s", // only the RFC 7234 layer caches
	}

	f, err := factoryFor(&config.MechanismPrototypes{Contextualizers: []config.Mechanism{{ID: "m", Type: "generic", Config: conf}}})
	if err != nil {
		return err
	}

	m, err := f.CreateContextualizer("", "m", nil)
	if err != nil {
		return err
	}

	w.tr.Handlers[hostAPI] = func(r *env.Recorded) (*http.Response, error) {
		now := time.Now().UTC()
		hdr := h.responseHeaders(now)

		return jsonReply(r, map[string]any{"gen": now.Unix()}, hdr)
	}

	w.req = func(w *world) handed {
		ctx := w.ctx()

		if err := m.Execute(ctx, &subject.Subject{ID: "alice", Attributes: map[string]any{}}); err != nil {
			return handed{err: err.Error()}
		}

		g := genOf(ctx.Outputs()["m"])
		if g == nil {
			return handed{err: fmt.Sprintf("payload missing in outputs: %v", ctx.Outputs())}
		}

		return handed{ok: true, issuedAt: g, what: fmt.Sprintf("response generated T0%+d", int(g.Sub(env.T0)/time.Second))}
	}

	return nil
}
