// Package c08: percent-encoding cannot change the matched rule; encoded slashes
// obey the rule's setting.
package c08

import (
	"encoding/json"
	"fmt"
	"slices"
	"sort"
	"strings"
	"time"

	"github.com/dadrus/heimdall/internal/config"
	rulecfg "github.com/dadrus/heimdall/internal/rules/config"

	"github.com/dadrus/heimdall/verif/engine"
	"github.com/dadrus/heimdall/verif/hx"
)

type Case struct {
	RuleSet string `json:"rule_set"`
	Setting string `json:"allow_encoded_slashes"` // off|on|no_decode
	Base    string `json:"canonical_path"`
	Path    string `json:"sent_path"`
	Kind    string `json:"kind"` // unreserved|slash
	Service string `json:"service"`
	// Prior: the rule set was first loaded with this allow_encoded_slashes setting and then updated to Setting (nothing else changed)
	Prior string `json:"updated_from_setting,omitempty"`
}

var ruleSetNames = []string{"literal+catchall", "single+catchall", "single-with-path-params+catchall", "free+catchall", "default-rule-only",
	"mixed-settings-on-one-expression", "single+strip-prefix", "same-path-params-first-under-another-setting"}

var settings = []string{"off", "on", "no_decode"}

var bases = []string{"/adm/x-1", "/adm/a.b~c_d", "/adm/k/l"}

func catalogue() *config.MechanismPrototypes {
	return &config.MechanismPrototypes{
		Authenticators: []config.Mechanism{{ID: "anon", Type: "anonymous"}},
		Finalizers: []config.Mechanism{
			{ID: "echo", Type: "header", Config: config.MechanismConfig{"headers": map[string]any{
				"X-Cap": `{{ .Request.URL.Captures | toJson }}`,
			}}},
			{ID: "ruleid", Type: "header", Config: config.MechanismConfig{"headers": map[string]any{"X-Rule": "default"}}},
		},
	}
}

func ruleSets(name, setting, base, upstream string) hx.RuleSetFor {
	return func(mode config.OperationMode) []*rulecfg.RuleSet {
		var backend *rulecfg.Backend
		if mode == config.ProxyMode {
			backend = &rulecfg.Backend{Host: upstream}
		}

		mk := func(id, path string, pp ...rulecfg.ParameterMatcher) rulecfg.Rule {
			return rulecfg.Rule{
				ID: id, Backend: backend, EncodedSlashesHandling: rulecfg.EncodedSlashesHandling(setting),
				Matcher: rulecfg.Matcher{Routes: []rulecfg.Route{{Path: path, PathParams: pp}}},
				Execute: []config.MechanismConfig{
					{"authenticator": "anon"}, {"finalizer": "echo"},
					{"finalizer": "ruleid", "config": map[string]any{"headers": map[string]any{"X-Rule": id}}},
				},
			}
		}

		rs := &rulecfg.RuleSet{Version: rulecfg.CurrentRuleSetVersion, Name: "c08"}
		rs.Source = "c08"

		last := base[strings.LastIndex(base, "/")+1:]

		switch name {
		case "literal+catchall":
			rs.Rules = []rulecfg.Rule{mk("literal", base), mk("catchall", "/**")}
		case "single+catchall":
			rs.Rules = []rulecfg.Rule{mk("single", "/adm/:p"), mk("single2", "/adm/:p/:q"), mk("catchall", "/**")}
		case "single-with-path-params+catchall":
			rs.Rules = []rulecfg.Rule{
				mk("single-pp", base[:strings.LastIndex(base, "/")+1]+":p", rulecfg.ParameterMatcher{Name: "p", Type: "glob", Value: last[:1] + "*"}),
				mk("catchall", "/**"),
			}
		case "single+strip-prefix":
			// like single+catchall, and the proxy cuts the literal prefix from the path it forwards
			a, b := mk("single", "/adm/:p"), mk("single2", "/adm/:p/:q")

			for _, r := range []*rulecfg.Rule{&a, &b} {
				if r.Backend != nil {
					bk := *r.Backend
					bk.URLRewriter = &rulecfg.URLRewriter{PathPrefixToCut: "/adm"}
					r.Backend = &bk
				}
			}

			rs.Rules = []rulecfg.Rule{a, b, mk("catchall", "/**")}
		case "same-path-params-first-under-another-setting":
			// two rules with textually identical path_params, the first one (never matching: other method) with another
			// allow_encoded_slashes setting than the one under test
			other := rulecfg.EncodedSlashesOn
			if setting == "on" {
				other = rulecfg.EncodedSlashesOff
			}

			pp := rulecfg.ParameterMatcher{Name: "p", Type: "glob", Value: last[:1] + "*"}
			first := mk("other-setting", base[:strings.LastIndex(base, "/")+1]+":p", pp)
			first.EncodedSlashesHandling = other
			first.Matcher.Methods = []string{"DELETE"}
			rs.Rules = []rulecfg.Rule{first, mk("single-pp", base[:strings.LastIndex(base, "/")+1]+":p", pp), mk("catchall", "/**")}
		case "free+catchall":
			rs.Rules = []rulecfg.Rule{mk("free", "/adm/*r"), mk("catchall", "/**")}
		case "default-rule-only":
			rs.Rules = []rulecfg.Rule{mk("elsewhere", "/elsewhere")}
		case "mixed-settings-on-one-expression":
			// two rules of one rule set on the same path expressions: the first decodes encoded slashes but never
			// matches (its path_params fail), the second one - with the setting under test - answers
			first := mk("never", "/adm/:p", rulecfg.ParameterMatcher{Name: "p", Type: "exact", Value: "never-sent"})
			first.EncodedSlashesHandling = rulecfg.EncodedSlashesOn
			first2 := mk("never2", "/adm/:p/:q", rulecfg.ParameterMatcher{Name: "q", Type: "exact", Value: "never-sent"})
			first2.EncodedSlashesHandling = rulecfg.EncodedSlashesOn
			rs.Rules = []rulecfg.Rule{first, first2, mk("single", "/adm/:p"), mk("single2", "/adm/:p/:q"), mk("catchall", "/**")}
		}

		return []*rulecfg.RuleSet{rs}
	}
}

// designated returns up to max positions of unreserved octets of the path, the boundaries first: the last and the first
// octet of the path, the first and last octet of every segment, the unreserved punctuation, then the rest.
func designated(base string, max int) []int {
	var prio []int

	add := func(i int) {
		if i > 0 && i < len(base) && base[i] != '/' && !slices.Contains(prio, i) {
			prio = append(prio, i)
		}
	}

	add(len(base) - 1)
	add(1)

	for i := 1; i < len(base); i++ {
		if base[i-1] == '/' || i+1 == len(base) || base[i+1] == '/' {
			add(i)
		}
	}

	for i := 1; i < len(base); i++ {
		if strings.ContainsRune("-._~", rune(base[i])) {
			add(i)
		}
	}

	for i := 1; i < len(base); i++ {
		add(i)
	}

	if len(prio) > max {
		prio = prio[:max]
	}

	sort.Ints(prio)

	return prio
}

// spellings of a path: the designated unreserved octets in raw, upper-hex and lower-hex form.
func spellings(base string, max int) []string {
	pos := designated(base, max)

	total := 1
	for range pos {
		total *= 3
	}

	out := make([]string, 0, total)

	for n := 0; n < total; n++ {
		var sb strings.Builder

		k := n
		choice := map[int]int{}

		for _, p := range pos {
			choice[p] = k % 3
			k /= 3
		}

		for i := 0; i < len(base); i++ {
			switch c, ok := choice[i]; {
			case ok && c == 1:
				fmt.Fprintf(&sb, "%%%02X", base[i])
			case ok && c == 2:
				fmt.Fprintf(&sb, "%%%02x", base[i])
			default:
				sb.WriteByte(base[i])
			}
		}

		out = append(out, sb.String())
	}

	return out
}

func slashVariants(base string) []string {
	idx := strings.LastIndex(base, "/") + 1

	var out []string

	for i := idx; i <= len(base); i++ {
		for _, enc := range []string{"%2F", "%2f"} {
			out = append(out, base[:i]+enc+base[i:])
		}
	}

	return out
}

// the same insertions with every octet of the last segment percent-encoded (upper or lower hex): escapes that begin like the
// encoded slash (%2D, %2E) and others come before and after it
func slashVariantsEncoded(base string) []string {
	idx := strings.LastIndex(base, "/") + 1

	encode := func(s, format string) string {
		var sb strings.Builder

		for i := 0; i < len(s); i++ {
			fmt.Fprintf(&sb, format, s[i])
		}

		return sb.String()
	}

	var out []string

	for i := idx; i <= len(base); i++ {
		for _, enc := range []string{"%2F", "%2f"} {
			out = append(out, base[:idx]+encode(base[idx:i], "%%%02X")+enc+encode(base[i:], "%%%02X"),
				base[:idx]+encode(base[idx:i], "%%%02x")+enc+encode(base[i:], "%%%02x"))
		}
	}

	return out
}

type obs struct {
	status  int
	allowed bool
	rule    string
	caps    string
	upLine  string
	ups     int
	err     error
}

func observe(apps *hx.Apps, service, path string) obs {
	r := &hx.Req{Method: "GET", Scheme: "http", Host: "svc.local", RawPath: path}

	var (
		resp *hx.Resp
		o    obs
	)

	switch service {
	case "decision":
		resp = apps.DoDecision(r)
		o.rule, o.caps = resp.Header.Get("X-Rule"), resp.Header.Get("X-Cap")
	case "envoy":
		// with a query, which Envoy hands over as part of the request target
		r.RawQuery = "x=1"
		resp = apps.DoEnvoy(r)
		o.rule, o.caps = resp.OkHeaders["X-Rule"], resp.OkHeaders["X-Cap"]
	default:
		resp = apps.DoProxy(r)
		o.ups = len(resp.Upstream)

		if o.ups > 0 {
			o.rule, o.caps = resp.Upstream[0].Header.Get("X-Rule"), resp.Upstream[0].Header.Get("X-Cap")
			o.upLine = resp.Upstream[0].RequestURI
		}
	}

	o.status, o.allowed, o.err = resp.Status, resp.Allowed, resp.ParseErr

	return o
}

func judge(c *engine.Ctx, apps *hx.Apps, cs *Case) {
	o := observe(apps, cs.Service, cs.Path)

	c.Eval(1)

	if o.err != nil {
		c.Violation("request-not-parsable", fmt.Sprintf("%+v: %v", *cs, o.err), cs)

		return
	}

	feature := cs.RuleSet + "/" + cs.Service
	if cs.Prior != "" {
		feature += "/setting-changed-by-an-update"
	}

	if cs.Kind == "unreserved" {
		ref := observe(apps, cs.Service, cs.Base)

		if cs.Path != cs.Base {
			c.NontrivialN(1)
		}

		c.Outcome(fmt.Sprintf("unreserved re-encoding: canonical -> rule %s", ref.rule))

		switch {
		case o.allowed != ref.allowed:
			c.Violation("unreserved-reencoding-changes-decision/"+feature,
				fmt.Sprintf("%+v: status %d (canonical spelling %d)", *cs, o.status, ref.status), cs)
		case o.rule != ref.rule:
			c.Violation("unreserved-reencoding-changes-matched-rule/"+ref.rule+"->"+o.rule+"/"+cs.Service+"/"+whichSegment(cs),
				fmt.Sprintf("%+v: rule %q, canonical spelling matches %q", *cs, o.rule, ref.rule), cs)
		case o.caps != ref.caps:
			c.Violation("unreserved-reencoding-changes-captures/"+feature,
				fmt.Sprintf("%+v: captures %s, canonical %s", *cs, o.caps, ref.caps), cs)
		}

		return
	}

	// encoded slash
	if cs.RuleSet == "single-with-path-params+catchall" || cs.RuleSet == "same-path-params-first-under-another-setting" {
		// the path_params expression (glob "<first char>*") must still hold for the rule to be the one that answers;
		// otherwise the catch-all / default rule answers and the case says nothing about this rule's setting
		last := cs.Path[strings.LastIndex(cs.Path, "/")+1:]
		if strings.HasPrefix(last, "%") || cs.Setting == "on" {
			c.Outcome("encoded slash: path_params no longer hold, other rule answers (not judged)")

			return
		}
	}

	c.NontrivialN(1)

	hexCase := "upper-case-hex"
	if strings.Contains(cs.Path, "%2f") {
		hexCase = "lower-case-hex"
	}

	setting := cs.Setting
	if cs.RuleSet == "default-rule-only" {
		setting = "off" // the default rule never allows encoded slashes
	}

	c.Outcome("encoded slash, effective setting " + setting + " -> status class " + fmt.Sprint(o.status/100) + "xx")

	switch setting {
	case "off":
		if o.allowed || o.ups != 0 || o.status != 400 {
			c.Violation("encoded-slash-accepted-although-off/"+hexCase+"/"+feature,
				fmt.Sprintf("%+v: status %d upstream hits %d rule %q captures %s (expected precondition error 400, nothing forwarded)",
					*cs, o.status, o.ups, o.rule, o.caps), cs)
		}
	case "no_decode":
		if !o.allowed {
			c.Violation("encoded-slash-rejected-although-no_decode/"+hexCase+"/"+feature, fmt.Sprintf("%+v: status %d", *cs, o.status), cs)

			return
		}

		if o.caps != "null" && o.caps != "{}" && !strings.Contains(strings.ToUpper(o.caps), "%2F") {
			c.Violation("encoded-slash-decoded-in-captures-although-no_decode/"+hexCase+"/"+feature,
				fmt.Sprintf("%+v: captures %s", *cs, o.caps), cs)
		}

		if cs.Service == "proxy" && !strings.Contains(strings.ToUpper(o.upLine), "%2F") {
			c.Violation("encoded-slash-decoded-in-upstream-path-although-no_decode/"+hexCase+"/"+feature,
				fmt.Sprintf("%+v: upstream request target %s", *cs, o.upLine), cs)
		}
	case "on":
		if !o.allowed {
			c.Violation("encoded-slash-rejected-although-on/"+hexCase+"/"+feature, fmt.Sprintf("%+v: status %d", *cs, o.status), cs)

			return
		}

		if strings.Contains(strings.ToUpper(o.caps), "%2F") {
			c.Violation("encoded-slash-kept-in-captures-although-on/"+hexCase+"/"+feature, fmt.Sprintf("%+v: captures %s", *cs, o.caps), cs)
		}

		if cs.Service == "proxy" && strings.Contains(strings.ToUpper(o.upLine), "%2F") {
			c.Violation("encoded-slash-kept-in-upstream-path-although-on/"+hexCase+"/"+feature,
				fmt.Sprintf("%+v: upstream request target %s", *cs, o.upLine), cs)
		}
	}

	if c.WantSample() && cs.Setting != "off" && cs.Service == "proxy" && cs.RuleSet == "free+catchall" {
		c.Sample(map[string]any{"case": cs, "status": o.status, "rule": o.rule, "captures": o.caps, "upstream_target": o.upLine})
	}
}

// whichSegment tells whether the re-encoded octets lie in a segment matched by a literal or by a wildcard.
func whichSegment(cs *Case) string {
	first := cs.Path[:strings.LastIndex(cs.Path, "/")]
	if strings.Contains(first, "%") {
		return "literal-prefix-segment-reencoded"
	}

	return "last-segment-reencoded"
}

func Check() *engine.Check {
	return &engine.Check{
		ID:    "C08",
		Level: "exploration",
		Rule: "8 rule-set shapes (literal, single wildcard, single wildcard with path_params, free wildcard, single wildcard whose literal prefix the proxy strips - each next to a /** catch-all -, rules with different settings on one expression, two rules with the same path_params under different settings and " +
			"default rule only) x 3 allow_encoded_slashes settings x 3 canonical paths x (every spelling with any subset of the designated " +
			"unreserved octets - 6 quick / 9 thorough, always including the first and last octet of the path and of every segment - percent-encoded in upper or lower hex = 3^n per path, and %2F / %2f inserted at every position of the last segment, also together with the first octet of the path percent-encoded and with every octet of the last segment percent-encoded; the encoded-slash cases also after an update that changed nothing but the setting) " +
			"x decision and proxy service, sent as raw request bytes through http.ReadRequest and the real handler chains with real mechanisms, and the Envoy ext_authz service (the request target with a query in the path attribute, as Envoy sends it); " +
			"oracle: metamorphic equality with the canonical spelling (rule, captures, decision) and the encoded-slash table of the statement. " +
			"Non-trivial = spelling differs from the canonical one or contains an encoded slash.",
		Assumptions: []string{
			"hex case of a preserved %2F in captured values / upstream path is not judged",
			"paths longer than 3 segments and other reserved characters are not explored",
		},
		Shards: func(string) int { return 16 },
		Budget: func(tier string) time.Duration {
			if tier == "thorough" {
				return 20 * time.Minute
			}

			return 3 * time.Minute
		},
		Run:    run,
		Replay: replay,
	}
}

func withFixture(name, setting, base, prior string, f func(apps *hx.Apps)) error {
	mf, err := hx.RealFactory(catalogue())
	if err != nil {
		return err
	}

	conf := &config.Configuration{Default: &config.DefaultRule{Execute: []config.MechanismConfig{
		{"authenticator": "anon"}, {"finalizer": "echo"}, {"finalizer": "ruleid"},
	}}}

	apps := hx.NewApps(conf, nil)
	defer apps.Close()

	// the default rule needs an upstream in proxy mode: none exists, so proxy + default rule can never forward (observed as denial)
	if prior != "" {
		err = apps.LoadUpdate(mf, ruleSets(name, prior, base, apps.Upstream.Host()), ruleSets(name, setting, base, apps.Upstream.Host()))
	} else {
		err = apps.Load(mf, ruleSets(name, setting, base, apps.Upstream.Host()))
	}

	if err != nil {
		return err
	}

	f(apps)

	return nil
}

func run(c *engine.Ctx) {
	idx := 0

	for _, name := range ruleSetNames {
		for _, setting := range settings {
			for _, base := range bases {
				idx++

				if !c.Mine(idx) {
					continue
				}

				if c.Expired() {
					return
				}

				err := withFixture(name, setting, base, "", func(apps *hx.Apps) {
					for _, svc := range []string{"decision", "proxy", "envoy"} {
						npos := 6
						if !c.Quick() {
							npos = 9
						}

						for _, p := range spellings(base, npos) {
							judge(c, apps, &Case{name, setting, base, p, "unreserved", svc, ""})
						}

						for _, p := range slashVariants(base) {
							judge(c, apps, &Case{name, setting, base, p, "slash", svc, ""})

							// the same with the first octet of the path (part of the literal prefix) percent-encoded as well
							judge(c, apps, &Case{name, setting, base, fmt.Sprintf("/%%%02X", p[1]) + p[2:], "slash", svc, ""})
						}

						for _, p := range slashVariantsEncoded(base) {
							judge(c, apps, &Case{name, setting, base, p, "slash", svc, ""})
						}
					}
				})

				// the same rule set reached by an update that changed nothing but the setting
				for _, prior := range settings {
					if err != nil || prior == setting || name == "default-rule-only" {
						continue
					}

					err = withFixture(name, setting, base, prior, func(apps *hx.Apps) {
						for _, svc := range []string{"decision", "proxy", "envoy"} {
							for _, p := range slashVariants(base) {
								judge(c, apps, &Case{name, setting, base, p, "slash", svc, prior})
							}
						}
					})
				}

				if err != nil {
					c.Infra("fixture %s/%s/%s: %v", name, setting, base, err)

					return
				}
			}
		}
	}
}

func replay(c *engine.Ctx, raw json.RawMessage) {
	var cs Case
	if err := json.Unmarshal(raw, &cs); err != nil {
		c.Infra("bad replay: %v", err)

		return
	}

	if err := withFixture(cs.RuleSet, cs.Setting, cs.Base, cs.Prior, func(apps *hx.Apps) { judge(c, apps, &cs) }); err != nil {
		c.Infra("fixture: %v", err)
	}
}
