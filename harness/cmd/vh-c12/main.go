package main

import (
	"github.com/dadrus/heimdall/verif/engine"
	"github.com/dadrus/heimdall/verif/props/c12"
)

func main() {
	checks := map[string]*engine.Check{}

	for _, c := range []*engine.Check{
		c12.Check(),
	} {
		checks[c.ID] = c
	}

	engine.Main(checks)
}
