package main

import (
	"github.com/dadrus/heimdall/verif/engine"
	"github.com/dadrus/heimdall/verif/props/c01"
	"github.com/dadrus/heimdall/verif/props/c02"
	"github.com/dadrus/heimdall/verif/props/c03"
	"github.com/dadrus/heimdall/verif/props/c04"
	"github.com/dadrus/heimdall/verif/props/c05"
	"github.com/dadrus/heimdall/verif/props/c06"
	"github.com/dadrus/heimdall/verif/props/c07"
	"github.com/dadrus/heimdall/verif/props/c08"
	"github.com/dadrus/heimdall/verif/props/c09"
	"github.com/dadrus/heimdall/verif/props/c10"
	"github.com/dadrus/heimdall/verif/props/c11"
	"github.com/dadrus/heimdall/verif/props/c12"
	"github.com/dadrus/heimdall/verif/props/c13"
	"github.com/dadrus/heimdall/verif/props/c14"
	"github.com/dadrus/heimdall/verif/props/c15"
	"github.com/dadrus/heimdall/verif/props/c16"
	"github.com/dadrus/heimdall/verif/props/c17"
	"github.com/dadrus/heimdall/verif/props/c18"
	"github.com/dadrus/heimdall/verif/props/c19"
	"github.com/dadrus/heimdall/verif/props/c20"
)

func main() {
	checks := map[string]*engine.Check{}

	for _, c := range []*engine.Check{
		c01.Check(),
		c02.Check(),
		c03.Check(),
		c04.Check(),
		c05.Check(),
		c06.Check(),
		c07.Check(),
		c08.Check(),
		c09.Check(),
		c10.Check(),
		c11.Check(),
		c12.Check(),
		c13.Check(),
		c14.Check(),
		c15.Check(),
		c16.Check(),
		c17.Check(),
		c18.Check(),
		c19.Check(),
		c20.Check(),
	} {
		checks[c.ID] = c
	}

	engine.Main(checks)
}
