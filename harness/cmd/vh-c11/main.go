package main

import (
	"github.com/dadrus/heimdall/verif/engine"
	"github.com/dadrus/heimdall/verif/props/c11"
)

func main() {
	checks := map[string]*engine.Check{}

	for _, c := range []*engine.Check{
		c11.Check(),
	} {
		checks[c.ID] = c
	}

	engine.Main(checks)
}
