package main

import (
	"github.com/dadrus/heimdall/verif/engine"
	"github.com/dadrus/heimdall/verif/props/c17"
)

func main() {
	checks := map[string]*engine.Check{}

	for _, c := range []*engine.Check{
		c17.Check(),
	} {
		checks[c.ID] = c
	}

	engine.Main(checks)
}
