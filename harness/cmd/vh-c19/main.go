package main

import (
	"github.com/dadrus/heimdall/verif/engine"
	"github.com/dadrus/heimdall/verif/props/c19"
)

func main() {
	checks := map[string]*engine.Check{}

	for _, c := range []*engine.Check{
		c19.Check(),
	} {
		checks[c.ID] = c
	}

	engine.Main(checks)
}
