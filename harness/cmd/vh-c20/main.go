package main

import (
	"github.com/dadrus/heimdall/verif/engine"
	"github.com/dadrus/heimdall/verif/props/c20"
)

func main() {
	checks := map[string]*engine.Check{}

	for _, c := range []*engine.Check{
		c20.Check(),
	} {
		checks[c.ID] = c
	}

	engine.Main(checks)
}
