package hx

import (
	"bufio"
	"bytes"
	"context"
	"crypto/tls"
	"fmt"
	"io"
	"net"
	"net/http"
	"net/http/httptest"
	"runtime"
	"sort"
	"strings"
	"sync"
	"time"

	envoy_core "github.com/envoyproxy/go-control-plane/envoy/config/core/v3"
	envoy_auth "github.com/envoyproxy/go-control-plane/envoy/service/auth/v3"
	"github.com/rs/zerolog"
	"google.golang.org/grpc"
	"google.golang.org/grpc/credentials/insecure"
	"google.golang.org/grpc/test/bufconn"

	"github.com/dadrus/heimdall/internal/cache"
	"github.com/dadrus/heimdall/internal/config"
	"github.com/dadrus/heimdall/internal/handler/decision"
	"github.com/dadrus/heimdall/internal/handler/envoyextauth/grpcv3"
	"github.com/dadrus/heimdall/internal/handler/proxy"
	"github.com/dadrus/heimdall/internal/heimdall"
	"github.com/dadrus/heimdall/internal/keyholder"
	"github.com/dadrus/heimdall/internal/otel/metrics/certificate"
	"github.com/dadrus/heimdall/internal/rules"
	rulecfg "github.com/dadrus/heimdall/internal/rules/config"
	"github.com/dadrus/heimdall/internal/rules/mechanisms"
	"github.com/dadrus/heimdall/internal/rules/rule"
	"github.com/dadrus/heimdall/internal/watcher"
)

// SwapExec lets the three servers be built once while rules are replaced per case.
type SwapExec struct{ Cur rule.Executor }

func (s *SwapExec) Execute(ctx heimdall.Context) (rule.Backend, error) { return s.Cur.Execute(ctx) }

// UpstreamReq is what the recording upstream received.
type UpstreamReq struct {
	RequestLine string
	Method      string
	RequestURI  string
	Host        string
	Header      http.Header
	Body        []byte
}

type Upstream struct {
	Srv  *httptest.Server
	mu   sync.Mutex
	Reqs []*UpstreamReq
	// Respond may be set to customise the answer.
	Respond func(w http.ResponseWriter, r *http.Request)
}

func NewUpstream() *Upstream {
	u := &Upstream{}
	u.Srv = httptest.NewServer(http.HandlerFunc(func(w http.ResponseWriter, r *http.Request) {
		body, _ := io.ReadAll(r.Body)
		u.mu.Lock()
		u.Reqs = append(u.Reqs, &UpstreamReq{
			RequestLine: r.Method + " " + r.RequestURI + " " + r.Proto, Method: r.Method, RequestURI: r.RequestURI,
			Host: r.Host, Header: r.Header.Clone(), Body: body,
		})
		respond := u.Respond
		u.mu.Unlock()

		if respond != nil {
			respond(w, r)

			return
		}

		w.Header().Set("X-Upstream", "yes")
		w.WriteHeader(http.StatusOK)
		_, _ = w.Write([]byte("upstream-ok"))
	}))

	return u
}

func (u *Upstream) Host() string { return strings.TrimPrefix(u.Srv.URL, "http://") }

func (u *Upstream) Take() []*UpstreamReq {
	u.mu.Lock()
	defer u.mu.Unlock()

	r := u.Reqs
	u.Reqs = nil

	return r
}

// Apps is the assembled three-entry-point fixture: the real decision and proxy
// handler chains, the real Envoy gRPC server over an in-memory connection, a
// recording upstream on loopback.
type Apps struct {
	Conf     *config.Configuration
	Decision http.Handler
	Proxy    http.Handler
	Envoy    envoy_auth.AuthorizationClient
	Upstream *Upstream

	execDec, execPrx, execEnv *SwapExec
	grpcSrv                   *grpc.Server
	conn                      *grpc.ClientConn
}

// NewApps builds the three services from one configuration.
func NewApps(conf *config.Configuration, cch cache.Cache) *Apps {
	return NewAppsWithLogger(conf, cch, zerolog.Nop())
}

// NewAppsWithLogger builds the services with the given logger (e.g. one at trace level writing to io.Discard: log
// statements are code as well).
func NewAppsWithLogger(conf *config.Configuration, cch cache.Cache, log zerolog.Logger) *Apps {
	a := &Apps{Conf: conf, Upstream: NewUpstream(), execDec: &SwapExec{}, execPrx: &SwapExec{}, execEnv: &SwapExec{}}

	if conf.Serve.Proxy.Timeout.Read == 0 {
		conf.Serve.Proxy.Timeout.Read = 120 * time.Second
	}

	a.Decision = decision.VerifNewService(conf, cch, log, a.execDec).Handler
	a.Proxy = proxy.VerifNewService(conf, cch, log, a.execPrx).Handler
	a.grpcSrv = grpcv3.VerifNewService(conf, cch, log, a.execEnv)

	lis := bufconn.Listen(1 << 20)

	go func() { _ = a.grpcSrv.Serve(lis) }()

	conn, err := grpc.NewClient("passthrough:///bufnet",
		grpc.WithContextDialer(func(ctx context.Context, _ string) (net.Conn, error) { return lis.DialContext(ctx) }),
		grpc.WithTransportCredentials(insecure.NewCredentials()))
	if err != nil {
		panic(err)
	}

	a.conn = conn
	a.Envoy = envoy_auth.NewAuthorizationClient(conn)

	return a
}

func (a *Apps) Close() {
	_ = a.conn.Close()
	a.grpcSrv.Stop()
	a.Upstream.Srv.Close()
}

// RuleSetFor gives checks the chance to adapt a rule set per mode (proxy needs forward_to).
type RuleSetFor func(mode config.OperationMode) []*rulecfg.RuleSet

// Load replaces the rules of all three services: for each a fresh real rule
// factory (own operation mode), repository, processor and executor.
func (a *Apps) Load(mf mechanisms.MechanismFactory, sets RuleSetFor) error {
	for _, tgt := range []struct {
		mode config.OperationMode
		ex   *SwapExec
	}{{config.DecisionMode, a.execDec}, {config.ProxyMode, a.execPrx}, {config.DecisionMode, a.execEnv}} {
		rf, err := rules.NewRuleFactory(mf, a.Conf, tgt.mode, zerolog.Nop())
		if err != nil {
			return fmt.Errorf("rule factory: %w", err)
		}

		repo := rules.VerifNewRepository(rf)
		proc := rules.NewRuleSetProcessor(repo, rf)

		for _, rs := range sets(tgt.mode) {
			if err := proc.OnCreated(rs); err != nil {
				return fmt.Errorf("loading rule set %s: %w", rs.Source, err)
			}
		}

		tgt.ex.Cur = rules.VerifNewRuleExecutor(repo)
	}

	return nil
}

// LoadUpdate is Load followed by an update of every rule set to a second version (same sources).
func (a *Apps) LoadUpdate(mf mechanisms.MechanismFactory, before, after RuleSetFor) error {
	for _, tgt := range []struct {
		mode config.OperationMode
		ex   *SwapExec
	}{{config.DecisionMode, a.execDec}, {config.ProxyMode, a.execPrx}, {config.DecisionMode, a.execEnv}} {
		rf, err := rules.NewRuleFactory(mf, a.Conf, tgt.mode, zerolog.Nop())
		if err != nil {
			return fmt.Errorf("rule factory: %w", err)
		}

		repo := rules.VerifNewRepository(rf)
		proc := rules.NewRuleSetProcessor(repo, rf)

		for _, rs := range before(tgt.mode) {
			if err := proc.OnCreated(rs); err != nil {
				return fmt.Errorf("loading rule set %s: %w", rs.Source, err)
			}
		}

		for _, rs := range after(tgt.mode) {
			if err := proc.OnUpdated(rs); err != nil {
				return fmt.Errorf("updating rule set %s: %w", rs.Source, err)
			}
		}

		tgt.ex.Cur = rules.VerifNewRuleExecutor(repo)
	}

	return nil
}

// Req is one logical request.
type Req struct {
	Method   string
	Scheme   string // http | https
	Host     string
	RawPath  string // escaped path as on the request line
	RawQuery string
	Header   [][2]string // ordered, repeated names allowed, names as sent
	Body     string
	// Chunked: the body is sent with Transfer-Encoding: chunked in two chunks (unknown length for the receiver)
	Chunked    bool
	RemoteAddr string
	// EnvoyQueryAttribute: through the Envoy entry the query travels in the query attribute of its own (as clients of the
	// API other than Envoy, and heimdall's own tests, send it). Envoy itself sends the request target, query included, in
	// the path attribute and leaves the query attribute empty ("always empty, exists for compatibility reasons")
	EnvoyQueryAttribute bool
	// Ctx (optional) replaces the background context of the request (e.g. one the harness cancels in mid-flight)
	Ctx context.Context //nolint:containedctx
}

// Resp is the observable answer of one entry point.
type Resp struct {
	Status   int
	Header   http.Header
	Body     string
	Allowed  bool
	Upstream []*UpstreamReq // proxy only
	// envoy
	OkHeaders map[string]string
	// EnvoyMixed is set when the check response says OK but carries a denied_response
	EnvoyMixed string
	ParseErr   error
}

func (r *Req) raw() []byte {
	var b bytes.Buffer

	target := r.RawPath
	if r.RawQuery != "" {
		target += "?" + r.RawQuery
	}

	fmt.Fprintf(&b, "%s %s HTTP/1.1\r\nHost: %s\r\n", r.Method, target, r.Host)

	for _, h := range r.Header {
		fmt.Fprintf(&b, "%s: %s\r\n", h[0], h[1])
	}

	if r.Body != "" && r.Chunked {
		half := len(r.Body) / 2

		b.WriteString("Transfer-Encoding: chunked\r\n\r\n")

		for _, chunk := range []string{r.Body[:half], r.Body[half:]} {
			if chunk != "" {
				fmt.Fprintf(&b, "%x\r\n%s\r\n", len(chunk), chunk)
			}
		}

		b.WriteString("0\r\n\r\n")

		return b.Bytes()
	}

	if r.Body != "" {
		fmt.Fprintf(&b, "Content-Length: %d\r\n", len(r.Body))
	}

	b.WriteString("\r\n")
	b.WriteString(r.Body)

	return b.Bytes()
}

func (r *Req) httpRequest() (*http.Request, error) {
	req, err := http.ReadRequest(bufio.NewReader(bytes.NewReader(r.raw())))
	if err != nil {
		return nil, err
	}

	req.RemoteAddr = r.RemoteAddr
	if req.RemoteAddr == "" {
		req.RemoteAddr = "192.0.2.7:4711"
	}

	if r.Scheme == "https" {
		req.TLS = &tls.ConnectionState{}
	}

	if r.Ctx != nil {
		req = req.WithContext(r.Ctx)
	}

	return req, nil
}

// finalRecorder is a response recorder that treats informational responses the way the net/http server does: a 1xx
// status (other than 101) is sent on its way, the final status is still to come.
type finalRecorder struct {
	*httptest.ResponseRecorder
	Informational []int
}

func newRecorder() *finalRecorder { return &finalRecorder{ResponseRecorder: httptest.NewRecorder()} }

func (r *finalRecorder) WriteHeader(code int) {
	if code >= 100 && code < 200 && code != http.StatusSwitchingProtocols {
		r.Informational = append(r.Informational, code)

		return
	}

	r.ResponseRecorder.WriteHeader(code)
}

// Unwrap lets http.ResponseController reach the recorder.
func (r *finalRecorder) Unwrap() http.ResponseWriter { return r.ResponseRecorder }

// served does what net/http does for a request it served: the request's context is cancelled when the handler returned
// (whatever the handler tied to the lifetime of the request is released then).
func served(req *http.Request, h http.Handler, rec http.ResponseWriter) {
	ctx, cancel := context.WithCancel(req.Context())
	h.ServeHTTP(rec, req.WithContext(ctx))
	cancel()
	runtime.Gosched()
}

func (a *Apps) DoDecision(r *Req) *Resp {
	req, err := r.httpRequest()
	if err != nil {
		return &Resp{ParseErr: err}
	}

	rec := newRecorder()
	served(req, a.Decision, rec)

	accepted := a.Conf.Serve.Decision.Respond.With.Accepted.Code
	if accepted == 0 {
		accepted = http.StatusOK
	}

	return &Resp{Status: rec.Code, Header: rec.Header(), Body: rec.Body.String(), Allowed: rec.Code == accepted}
}

func (a *Apps) DoProxy(r *Req) *Resp {
	req, err := r.httpRequest()
	if err != nil {
		return &Resp{ParseErr: err}
	}

	a.Upstream.Take()

	rec := newRecorder()
	served(req, a.Proxy, rec)

	ups := a.Upstream.Take()

	return &Resp{Status: rec.Code, Header: rec.Header(), Body: rec.Body.String(), Allowed: len(ups) > 0, Upstream: ups}
}

// TakeCorrelated removes and returns the recorded upstream requests that carry the given correlation header value.
func (u *Upstream) TakeCorrelated(value string) []*UpstreamReq {
	u.mu.Lock()
	defer u.mu.Unlock()

	var mine, rest []*UpstreamReq

	for _, q := range u.Reqs {
		if q.Header.Get(CorrelationHeader) == value {
			q.Header.Del(CorrelationHeader)
			mine = append(mine, q)
		} else {
			rest = append(rest, q)
		}
	}

	u.Reqs = rest

	return mine
}

// CorrelationHeader marks requests of concurrent clients so that what the upstream recorded can be attributed.
const CorrelationHeader = "X-Verif-Correlation"

// DoProxyConcurrent is DoProxy for concurrent callers: the request carries a correlation header (removed again from
// what is reported).
func (a *Apps) DoProxyConcurrent(r *Req, correlation string) *Resp {
	rc := *r
	rc.Header = append(append([][2]string{}, r.Header...), [2]string{CorrelationHeader, correlation})

	req, err := rc.httpRequest()
	if err != nil {
		return &Resp{ParseErr: err}
	}

	rec := newRecorder()
	served(req, a.Proxy, rec)

	ups := a.Upstream.TakeCorrelated(correlation)

	return &Resp{Status: rec.Code, Header: rec.Header(), Body: rec.Body.String(), Allowed: len(ups) > 0, Upstream: ups}
}

func (a *Apps) DoEnvoy(r *Req) *Resp {
	hdrs := map[string]string{}

	for _, h := range r.Header {
		k := strings.ToLower(h[0])
		if old, ok := hdrs[k]; ok {
			hdrs[k] = old + "," + h[1]
		} else {
			hdrs[k] = h[1]
		}
	}

	path, query := r.RawPath, r.RawQuery
	if !r.EnvoyQueryAttribute && query != "" {
		path, query = path+"?"+query, ""
	}

	creq := &envoy_auth.CheckRequest{Attributes: &envoy_auth.AttributeContext{Request: &envoy_auth.AttributeContext_Request{
		Http: &envoy_auth.AttributeContext_HttpRequest{
			Method: r.Method, Scheme: r.Scheme, Host: r.Host, Path: path, Query: query, Headers: hdrs,
			Body: r.Body, RawBody: []byte(r.Body),
		},
	}}}

	ctx, cancel := context.WithTimeout(context.Background(), 120*time.Second)
	defer cancel()

	resp, err := a.Envoy.Check(ctx, creq)
	if err != nil {
		return &Resp{ParseErr: err}
	}

	out := &Resp{Header: http.Header{}}

	// Envoy's ext_authz filter decides by the status alone: code OK (0, also when the status is absent) lets the request
	// pass whatever response variant is attached; only then the ok_response is consulted for headers
	if resp.GetStatus().GetCode() == 0 {
		out.Allowed = true
		out.Status = http.StatusOK
		out.OkHeaders = map[string]string{}

		for _, h := range resp.GetOkResponse().GetHeaders() {
			out.OkHeaders[h.GetHeader().GetKey()] = h.GetHeader().GetValue()
		}

		if d := resp.GetDeniedResponse(); d != nil {
			out.EnvoyMixed = fmt.Sprintf("status OK with a denied_response (http status %d)", d.GetStatus().GetCode())
		}

		return out
	}

	if d := resp.GetDeniedResponse(); d != nil {
		out.Status = int(d.GetStatus().GetCode())
		out.Body = d.GetBody()
		addHeaders(out.Header, d.GetHeaders())
	}

	return out
}

func addHeaders(dst http.Header, hs []*envoy_core.HeaderValueOption) {
	for _, h := range hs {
		dst.Add(h.GetHeader().GetKey(), h.GetHeader().GetValue())
	}
}

// SortedHeader renders a header map deterministically.
func SortedHeader(h http.Header) string {
	keys := make([]string, 0, len(h))
	for k := range h {
		keys = append(keys, k)
	}

	sort.Strings(keys)

	var sb strings.Builder

	for _, k := range keys {
		fmt.Fprintf(&sb, "%s=%q;", k, h[k])
	}

	return sb.String()
}

// RealFactory builds the production mechanism factory over the given catalogue.
func RealFactory(p *config.MechanismPrototypes) (mechanisms.MechanismFactory, error) {
	conf := &config.Configuration{Prototypes: p}

	return mechanisms.NewMechanismFactory(conf, zerolog.Nop(), &watcher.NoopWatcher{}, keyholder.VerifNewRegistry(),
		certificate.NewObserver())
}
