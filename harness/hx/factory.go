// Package hx contains harness fixtures shared by several checks: a scripted
// mechanism factory (the only stand-in inside otherwise real rule objects) and a
// minimal heimdall.Context.
package hx

import (
	"context"
	"fmt"
	"net/url"
	"sort"
	"strings"

	"github.com/rs/zerolog"

	"github.com/dadrus/heimdall/internal/config"
	"github.com/dadrus/heimdall/internal/heimdall"
	"github.com/dadrus/heimdall/internal/rules/mechanisms/authenticators"
	"github.com/dadrus/heimdall/internal/rules/mechanisms/authorizers"
	"github.com/dadrus/heimdall/internal/rules/mechanisms/contextualizers"
	"github.com/dadrus/heimdall/internal/rules/mechanisms/errorhandlers"
	"github.com/dadrus/heimdall/internal/rules/mechanisms/finalizers"
	"github.com/dadrus/heimdall/internal/rules/mechanisms/subject"
)

// Step describes one scripted mechanism instance.
type Step struct {
	Kind     string // authenticator|authorizer|contextualizer|finalizer|error_handler
	ID       string
	Override string // canonical rendering of the rule level config ("" = prototype)
	Fallback bool   // authenticators: IsFallbackOnErrorAllowed
	Continue bool   // others: ContinueOnError
}

func (s Step) String() string {
	if s.Override == "" {
		return s.Kind + ":" + s.ID
	}

	return s.Kind + ":" + s.ID + "{" + s.Override + "}"
}

// Script decides what a scripted mechanism does when it is executed.
type Script interface {
	// Authenticate returns the subject or an error.
	Authenticate(s Step, ctx heimdall.Context) (*subject.Subject, error)
	// Handle is called for authorizers, contextualizers and finalizers.
	Handle(s Step, ctx heimdall.Context, sub *subject.Subject) error
	// HandleError is called for error handlers.
	HandleError(s Step, ctx heimdall.Context, cause error) error
}

// Factory is a scripted mechanisms.MechanismFactory.
type Factory struct {
	Script Script
	// Specs gives the static flags per mechanism id; ids not listed are unknown.
	Specs map[string]Step
	// RejectOverride, when set, lets a rule level config be refused.
	RejectOverride func(id string, conf map[string]any) error
}

func renderConf(conf map[string]any) string {
	if conf == nil {
		return ""
	}

	keys := make([]string, 0, len(conf))
	for k := range conf {
		keys = append(keys, k)
	}

	sort.Strings(keys)

	var sb strings.Builder

	for i, k := range keys {
		if i > 0 {
			sb.WriteString(",")
		}

		fmt.Fprintf(&sb, "%s=%v", k, conf[k])
	}

	return sb.String()
}

func (f *Factory) step(kind, id string, conf config.MechanismConfig) (Step, error) {
	spec, ok := f.Specs[id]
	if !ok || spec.Kind != kind {
		return Step{}, fmt.Errorf("%w: no %s with id %q", heimdall.ErrConfiguration, kind, id)
	}

	if conf != nil {
		if f.RejectOverride != nil {
			if err := f.RejectOverride(id, conf); err != nil {
				return Step{}, err
			}
		}

		spec.Override = renderConf(conf)

		if v, ok := conf["fallback"].(bool); ok {
			spec.Fallback = v
		}

		if v, ok := conf["continue"].(bool); ok {
			spec.Continue = v
		}
	}

	return spec, nil
}

type authn struct {
	f *Factory
	s Step
}

func (a *authn) ID() string { return a.s.ID }
func (a *authn) Execute(ctx heimdall.Context) (*subject.Subject, error) {
	return a.f.Script.Authenticate(a.s, ctx)
}
func (a *authn) WithConfig(map[string]any) (authenticators.Authenticator, error) { return a, nil }
func (a *authn) IsFallbackOnErrorAllowed() bool                                  { return a.s.Fallback }

type handler struct {
	f *Factory
	s Step
}

func (h *handler) ID() string { return h.s.ID }
func (h *handler) Execute(ctx heimdall.Context, sub *subject.Subject) error {
	return h.f.Script.Handle(h.s, ctx, sub)
}
func (h *handler) ContinueOnError() bool { return h.s.Continue }

type authz struct{ handler }

func (h *authz) WithConfig(map[string]any) (authorizers.Authorizer, error) { return h, nil }

type ctxz struct{ handler }

func (h *ctxz) WithConfig(map[string]any) (contextualizers.Contextualizer, error) { return h, nil }

type fin struct{ handler }

func (h *fin) WithConfig(map[string]any) (finalizers.Finalizer, error) { return h, nil }

type eh struct {
	f *Factory
	s Step
}

func (h *eh) ID() string { return h.s.ID }
func (h *eh) Execute(ctx heimdall.Context, cause error) error {
	return h.f.Script.HandleError(h.s, ctx, cause)
}
func (h *eh) WithConfig(map[string]any) (errorhandlers.ErrorHandler, error) { return h, nil }

func (f *Factory) CreateAuthenticator(_, id string, conf config.MechanismConfig) (authenticators.Authenticator, error) {
	s, err := f.step("authenticator", id, conf)
	if err != nil {
		return nil, err
	}

	return &authn{f, s}, nil
}

func (f *Factory) CreateAuthorizer(_, id string, conf config.MechanismConfig) (authorizers.Authorizer, error) {
	s, err := f.step("authorizer", id, conf)
	if err != nil {
		return nil, err
	}

	return &authz{handler{f, s}}, nil
}

func (f *Factory) CreateContextualizer(_, id string, conf config.MechanismConfig) (contextualizers.Contextualizer, error) {
	s, err := f.step("contextualizer", id, conf)
	if err != nil {
		return nil, err
	}

	return &ctxz{handler{f, s}}, nil
}

func (f *Factory) CreateFinalizer(_, id string, conf config.MechanismConfig) (finalizers.Finalizer, error) {
	s, err := f.step("finalizer", id, conf)
	if err != nil {
		return nil, err
	}

	return &fin{handler{f, s}}, nil
}

func (f *Factory) CreateErrorHandler(_, id string, conf config.MechanismConfig) (errorhandlers.ErrorHandler, error) {
	s, err := f.step("error_handler", id, conf)
	if err != nil {
		return nil, err
	}

	return &eh{f, s}, nil
}

// AllowAll is a Script under which every step succeeds.
type AllowAll struct{}

func (AllowAll) Authenticate(Step, heimdall.Context) (*subject.Subject, error) {
	return &subject.Subject{ID: "anon"}, nil
}
func (AllowAll) Handle(Step, heimdall.Context, *subject.Subject) error { return nil }
func (AllowAll) HandleError(_ Step, _ heimdall.Context, cause error) error {
	return cause
}

// ---------------------------------------------------------------------------

// Ctx is a minimal heimdall.Context for checks that drive the repository / rules
// directly (the assembled services use the real request contexts).
type Ctx struct {
	Req       *heimdall.Request
	Headers   map[string][]string
	Cookies   map[string]string
	PipeErr   error
	Out       map[string]any
	AppCtx    context.Context
	ReqHeader map[string]string
}

type reqFuncs struct{ c *Ctx }

func (r reqFuncs) Header(name string) string  { return r.c.ReqHeader[name] }
func (r reqFuncs) Cookie(string) string       { return "" }
func (r reqFuncs) Headers() map[string]string { return r.c.ReqHeader }
func (r reqFuncs) Body() any                  { return nil }

var nopLogger = zerolog.Nop()

// NewCtx builds a context for the given method and URL (raw path is kept when
// the URL contains escapes, like the real extraction does).
func NewCtx(method, rawURL string) *Ctx {
	u, err := url.Parse(rawURL)
	if err != nil {
		panic(err)
	}

	c := &Ctx{Headers: map[string][]string{}, Cookies: map[string]string{}, Out: map[string]any{}, ReqHeader: map[string]string{}}
	c.Req = &heimdall.Request{Method: method, URL: &heimdall.URL{URL: *u}}
	c.Req.RequestFunctions = reqFuncs{c}
	c.AppCtx = nopLogger.WithContext(context.Background())

	return c
}

func (c *Ctx) Request() *heimdall.Request { return c.Req }
func (c *Ctx) AddHeaderForUpstream(name, value string) {
	c.Headers[name] = append(c.Headers[name], value)
}
func (c *Ctx) AddCookieForUpstream(name, value string) { c.Cookies[name] = value }
func (c *Ctx) AppContext() context.Context             { return c.AppCtx }
func (c *Ctx) SetPipelineError(err error)              { c.PipeErr = err }
func (c *Ctx) Outputs() map[string]any                 { return c.Out }

// MixedFactory: scripted regular steps, REAL error handler mechanisms created
// through errorhandlers.CreatePrototype and specialised by WithConfig exactly
// like the production mechanism factory does.
type MixedFactory struct {
	*Factory
	Protos map[string]errorhandlers.ErrorHandler
}

// EHSpec describes one real error handler prototype.
type EHSpec struct {
	ID, Type string
	Conf     map[string]any
}

func NewMixedFactory(f *Factory, ehs []EHSpec) (*MixedFactory, error) {
	mf := &MixedFactory{Factory: f, Protos: map[string]errorhandlers.ErrorHandler{}}

	for _, s := range ehs {
		eh, err := errorhandlers.CreatePrototype(nil, s.ID, s.Type, s.Conf)
		if err != nil {
			return nil, fmt.Errorf("error handler %s: %w", s.ID, err)
		}

		mf.Protos[s.ID] = eh
	}

	return mf, nil
}

func (f *MixedFactory) CreateErrorHandler(_, id string, conf config.MechanismConfig) (errorhandlers.ErrorHandler, error) {
	p, ok := f.Protos[id]
	if !ok {
		return nil, fmt.Errorf("%w: no error handler %q", heimdall.ErrConfiguration, id)
	}

	if conf != nil {
		return p.WithConfig(conf)
	}

	return p, nil
}
