package hx

import (
	"crypto"
	"crypto/ecdsa"
	"crypto/elliptic"
	"crypto/rand"
	"crypto/rsa"
	"crypto/x509"
	"crypto/x509/pkix"
	"encoding/pem"
	"fmt"
	"math/big"
	"sync"
	"time"
)

// KeySpec describes one key store entry.
type KeySpec struct {
	Kind     string // "EC" | "RSA"
	Size     int    // 256/384/521 or 2048/3072/4096
	KID      string // X-Key-ID header ("" = none)
	CN       string // certificate subject CN (default: derived from KID)
	WithCert bool   // self signed certificate with digital signature usage
	// cert validity relative to NotBefore
	NotBefore time.Time
	NotAfter  time.Time
}

var (
	keyMu    sync.Mutex
	keyCache = map[string]crypto.Signer{}
)

// Key returns a process-wide cached key for (kind, size, slot) — RSA generation is slow.
func Key(kind string, size int, slot int) crypto.Signer {
	keyMu.Lock()
	defer keyMu.Unlock()

	k := fmt.Sprintf("%s-%d-%d", kind, size, slot)
	if s, ok := keyCache[k]; ok {
		return s
	}

	var (
		s   crypto.Signer
		err error
	)

	switch kind {
	case "EC":
		var curve elliptic.Curve

		switch size {
		case 224:
			curve = elliptic.P224()
		case 256:
			curve = elliptic.P256()
		case 384:
			curve = elliptic.P384()
		default:
			curve = elliptic.P521()
		}

		s, err = ecdsa.GenerateKey(curve, rand.Reader)
	default:
		s, err = rsa.GenerateKey(rand.Reader, size)
	}

	if err != nil {
		panic(err)
	}

	keyCache[k] = s

	return s
}

// PEMEntry renders one key (PKCS#8) and optionally its self signed certificate.
func PEMEntry(spec KeySpec, key crypto.Signer) []byte {
	der, err := x509.MarshalPKCS8PrivateKey(key)
	if err != nil {
		panic(err)
	}

	blk := &pem.Block{Type: "PRIVATE KEY", Bytes: der}
	if spec.KID != "" {
		blk.Headers = map[string]string{"X-Key-ID": spec.KID}
	}

	out := pem.EncodeToMemory(blk)

	if spec.WithCert {
		cn := spec.CN
		if cn == "" {
			cn = "verif " + spec.KID
		}

		tmpl := &x509.Certificate{
			SerialNumber:          big.NewInt(int64(len(spec.KID)) + 7),
			Subject:               pkix.Name{CommonName: cn},
			NotBefore:             spec.NotBefore,
			NotAfter:              spec.NotAfter,
			KeyUsage:              x509.KeyUsageDigitalSignature | x509.KeyUsageCertSign,
			BasicConstraintsValid: true,
			IsCA:                  true,
		}

		cder, err := x509.CreateCertificate(rand.Reader, tmpl, tmpl, key.Public(), key)
		if err != nil {
			panic(err)
		}

		out = append(out, pem.EncodeToMemory(&pem.Block{Type: "CERTIFICATE", Bytes: cder})...)
	}

	return out
}

// PEMChainEntry renders one key (PKCS#8) followed by its certificate and the certificate of the CA that issued it. The
// leaf may live longer than its issuer (leafNotAfter after caNotAfter): the order of the chain in the file is leaf, CA.
func PEMChainEntry(kid string, key, caKey crypto.Signer, notBefore, leafNotAfter, caNotAfter time.Time) []byte {
	der, err := x509.MarshalPKCS8PrivateKey(key)
	if err != nil {
		panic(err)
	}

	blk := &pem.Block{Type: "PRIVATE KEY", Bytes: der}
	if kid != "" {
		blk.Headers = map[string]string{"X-Key-ID": kid}
	}

	out := pem.EncodeToMemory(blk)

	ca := &x509.Certificate{
		SerialNumber: big.NewInt(1001), Subject: pkix.Name{CommonName: "verif chain CA " + kid}, NotBefore: notBefore, NotAfter: caNotAfter,
		KeyUsage: x509.KeyUsageCertSign, BasicConstraintsValid: true, IsCA: true,
	}

	caDER, err := x509.CreateCertificate(rand.Reader, ca, ca, caKey.Public(), caKey)
	if err != nil {
		panic(err)
	}

	caCert, err := x509.ParseCertificate(caDER)
	if err != nil {
		panic(err)
	}

	leaf := &x509.Certificate{
		SerialNumber: big.NewInt(1002), Subject: pkix.Name{CommonName: "verif chain leaf " + kid}, NotBefore: notBefore, NotAfter: leafNotAfter,
		KeyUsage: x509.KeyUsageDigitalSignature,
	}

	leafDER, err := x509.CreateCertificate(rand.Reader, leaf, caCert, key.Public(), caKey)
	if err != nil {
		panic(err)
	}

	out = append(out, pem.EncodeToMemory(&pem.Block{Type: "CERTIFICATE", Bytes: leafDER})...)

	return append(out, pem.EncodeToMemory(&pem.Block{Type: "CERTIFICATE", Bytes: caDER})...)
}
