package engine

import (
	"fmt"
	"os"
	"regexp"
	"runtime"
	"sort"
	"strconv"
	"strings"
	"syscall"
	"time"
)

// The watchdog of a worker: a worker that neither counts anything new nor uses the processor for hangLimit is not
// exploring any more, it is stuck (under the cooperative scheduler a lock is a scheduling point and "no enabled thread"
// is reported there; in free-running parts a lock that is never released just blocks). The watchdog then looks for a
// goroutine that waits for a lock inside heimdall code and ends the worker the way a crash inside heimdall code ends it:
// the parent reports the site. It cannot raise an alarm on a worker that works or waits for something that arrives: the
// limit is minutes where the waits of the harness are milliseconds, and both conditions must hold for the whole time.
func hangLimit() time.Duration {
	if v := os.Getenv("VERIF_HANG_LIMIT_S"); v != "" {
		if n, err := strconv.Atoi(v); err == nil && n > 0 {
			return time.Duration(n) * time.Second
		}
	}

	return 300 * time.Second
}

func cpuUsed() time.Duration {
	var total time.Duration

	for _, who := range []int{syscall.RUSAGE_SELF, syscall.RUSAGE_CHILDREN} {
		var ru syscall.Rusage
		if syscall.Getrusage(who, &ru) == nil {
			total += time.Duration(ru.Utime.Nano()) + time.Duration(ru.Stime.Nano())
		}
	}

	return total
}

// AwaitingChild brackets the time this worker only waits for a process that has a watchdog of its own.
func (c *Ctx) AwaitingChild(on bool) {
	c.mu.Lock()
	defer c.mu.Unlock()

	if on {
		c.childWait++
	} else {
		c.childWait--
	}

	c.waitEpoch++
}

func (c *Ctx) progress() int64 {
	c.mu.Lock()
	defer c.mu.Unlock()

	if c.childWait > 0 {
		c.waitEpoch++ // waiting for a watched child counts as progress
	}

	p := c.waitEpoch + c.res.Evaluations + c.res.States + c.res.Transitions + int64(len(c.res.Violations))
	for _, v := range c.res.Extra {
		p += v
	}

	for _, v := range c.res.Outcomes {
		p += v
	}

	p += c.res.Traces + c.res.DistinctN + int64(len(c.res.Distinct))

	return p
}

// startWatchdog returns the function that stops it. onHang gets the site inside heimdall ("" if no goroutine waits for
// a lock there) and the stack of that goroutine (or all stacks).
func startWatchdog(c *Ctx, onHang func(site, stack string, idle time.Duration)) func() {
	done := make(chan struct{})
	limit := hangLimit()

	parent := os.Getppid()

	go func() {
		lastP, lastCPU, since := c.progress(), cpuUsed(), time.Now()

		t := time.NewTicker(5 * time.Second)
		defer t.Stop()

		for {
			select {
			case <-done:
				return
			case <-t.C:
			}

			// a worker whose parent is gone (killed run) has nobody to report to
			if os.Getppid() != parent {
				os.Exit(4)
			}

			p, cpu := c.progress(), cpuUsed()
			if p != lastP || cpu-lastCPU > time.Second {
				lastP, lastCPU, since = p, cpu, time.Now()

				continue
			}

			if time.Since(since) < limit {
				continue
			}

			buf := make([]byte, 8<<20)
			buf = buf[:runtime.Stack(buf, true)]
			site, stack := blockedInHeimdall(string(buf))

			if site == "" {
				stack = string(buf)
			}

			onHang(site, stack, time.Since(since))

			return
		}
	}()

	return func() { close(done) }
}

var goroutineHead = regexp.MustCompile(`^goroutine \d+ \[([^\]]*)\]:`)

// blockedInHeimdall picks, among the goroutines that wait for a lock (or a wait group, or a condition), those whose
// innermost heimdall frame is heimdall's own code, and returns the first by site.
func blockedInHeimdall(dump string) (string, string) {
	type cand struct{ site, stack string }

	var cands []cand

	for _, g := range strings.Split(dump, "\n\n") {
		m := goroutineHead.FindStringSubmatch(g)
		if m == nil {
			continue
		}

		state := m[1]
		if !strings.Contains(state, "Mutex") && !strings.Contains(state, "semacquire") &&
			!strings.Contains(state, "sync.Cond") && !strings.Contains(state, "WaitGroup") {
			continue
		}

		for _, line := range strings.Split(g, "\n") {
			line = strings.TrimSpace(line)
			if !strings.HasPrefix(line, "github.com/dadrus/heimdall/") {
				continue
			}

			if strings.Contains(line, "/verifshim/") {
				continue
			}

			if strings.HasPrefix(line, "github.com/dadrus/heimdall/verif/") || strings.Contains(line, ".Verif") {
				break
			}

			site := strings.TrimPrefix(line, "github.com/dadrus/heimdall/internal/")
			if i := strings.LastIndex(site, "("); i > 0 && strings.HasSuffix(site, ")") {
				site = site[:i]
			}

			cands = append(cands, cand{site, g})

			break
		}
	}

	if len(cands) == 0 {
		return "", ""
	}

	sort.Slice(cands, func(i, j int) bool { return cands[i].site < cands[j].site })

	return cands[0].site, cands[0].stack
}

const watchdogMark = "fatal error: verif watchdog: "

// hangAsCrash ends the worker like a crash does; the parent reads the site from the report.
func hangAsCrash(site, stack string, idle time.Duration) {
	if site == "" {
		fmt.Fprintf(os.Stderr, "INFRA: worker made no progress and used no processor time for %s, and no goroutine waits for a lock inside heimdall code\n%s\n",
			idle.Round(time.Second), stack)
		os.Exit(2)
	}

	fmt.Fprintf(os.Stderr, "\n%sno progress and no processor use for %s; a goroutine waits for a lock that is never released (%s)\n\n%s\n",
		watchdogMark, idle.Round(time.Second), site, stack)
	os.Exit(3)
}
