// Package sched is the stateless schedule explorer (iterative preemption
// bounding) on top of the vsched cooperative scheduler. DESIGN.md 2.4 E1.
package sched

import (
	"fmt"

	"github.com/dadrus/heimdall/internal/x/verifshim/vsched"
)

// Scenario builds a fresh instance of the system and registers its threads.
type Scenario interface {
	// Setup creates fresh state and registers threads with s.Go. It returns a
	// function evaluated after the execution finished (oracle); a non-empty
	// result is a violation description (signature, summary).
	Setup(s *vsched.Sched) (check func(out *vsched.Outcome) (sig, summary string), stateKey func() string)
}

type Stats struct {
	Executions   int64
	Points       int64 // scheduling decisions taken
	MaxPoints    int
	Pruned       int64
	StatesSeen   int64
	BoundReached int
	Complete     bool // the whole space up to the bound (or unbounded) was explored
}

type Failure struct {
	Sig      string
	Summary  string
	Choices  []int
	Schedule []string
}

type Explorer struct {
	Scenario Scenario
	Bound    int  // max preemptions (-1 = unbounded)
	Prune    bool // state-hash pruning (sound only if stateKey captures everything)
	// SyncOnly restricts context switches to synchronisation operations: a thread that is at a plain
	// scheduling point (between two statements) always continues. Every interleaving of the blocks
	// delimited by lock operations is still explored; unsynchronised accesses inside the blocks are the
	// subject of the separate race pass. This makes unbounded exploration (Bound = -1) feasible.
	SyncOnly bool
	Horizon  int
	Stop     func() bool // deadline
	Stats    Stats
	Failures []Failure
	seen     map[string]int // state key -> min preemptions used when first seen
	MaxFail  int
	// Shard/NShards partition the exploration over worker processes: the subtrees
	// hanging off the root execution are dealt round-robin; the root execution
	// itself belongs to shard 0.
	Shard, NShards int
	rootChild      int
}

// run executes one schedule: replay prefix then default choice 0.
func (e *Explorer) run(prefix []int) (*vsched.Outcome, string, string) {
	s := vsched.New(e.Horizon)
	check, stateKey := e.Scenario.Setup(s)

	_ = stateKey

	out := s.Run(func(idx int, p *vsched.Point) int {
		if idx < len(prefix) {
			if prefix[idx] >= len(p.Enabled) {
				panic(fmt.Sprintf("replay diverged at point %d: choice %d of %d enabled", idx, prefix[idx], len(p.Enabled)))
			}

			return prefix[idx]
		}

		return 0
	})

	sig, sum := check(out)

	return out, sig, sum
}

func choices(out *vsched.Outcome) []int {
	c := make([]int, len(out.Points))
	for i, p := range out.Points {
		c[i] = p.Chosen
	}

	return c
}

func describe(out *vsched.Outcome) []string {
	var res []string

	for _, p := range out.Points {
		res = append(res, fmt.Sprintf("T%d@%s", p.Enabled[p.Chosen], p.Locs[p.Chosen]))
	}

	return res
}

func (e *Explorer) explore(prefix []int) {
	if e.Stop != nil && e.Stop() {
		e.Stats.Complete = false

		return
	}

	out, sig, sum := e.run(prefix)

	isRoot := prefix == nil
	if isRoot && e.NShards > 1 && e.Shard != 0 {
		sig = "" // counted and judged by shard 0
	} else {
		e.Stats.Executions++
		e.Stats.Points += int64(len(out.Points))
	}

	if len(out.Points) > e.Stats.MaxPoints {
		e.Stats.MaxPoints = len(out.Points)
	}

	if sig != "" {
		if len(e.Failures) < e.MaxFail {
			// determinism check: the same schedule must fail the same way twice
			ch := choices(out)
			out2, sig2, _ := e.run(ch)

			if sig2 != sig || len(out2.Points) != len(out.Points) {
				sig = "NONDETERMINISTIC-REPLAY(" + sig + " vs " + sig2 + ")"
			}

			e.Failures = append(e.Failures, Failure{Sig: sig, Summary: sum, Choices: ch, Schedule: describe(out)})
		} else {
			e.Failures = append(e.Failures, Failure{Sig: sig})
		}
	}

	// preemptions used before each point
	used := 0
	pre := make([]int, len(out.Points)+1)

	for i, p := range out.Points {
		pre[i] = used

		if p.RunningEnabled && p.Chosen != 0 {
			used++
		}
	}

	for i := len(prefix); i < len(out.Points); i++ {
		p := out.Points[i]

		if e.SyncOnly && p.RunningEnabled && p.Ops[0] == vsched.OpYield {
			continue
		}

		for alt := 1; alt < len(p.Enabled); alt++ {
			cost := pre[i]
			if p.RunningEnabled {
				cost++
			}

			if e.Bound >= 0 && cost > e.Bound {
				continue
			}

			next := make([]int, i+1)
			for k := 0; k < i; k++ {
				next[k] = out.Points[k].Chosen
			}

			next[i] = alt

			if isRoot && e.NShards > 1 {
				e.rootChild++

				if e.rootChild%e.NShards != e.Shard {
					continue
				}
			}

			e.explore(next)
		}
	}
}

// Explore runs the whole bounded space.
func (e *Explorer) Explore() {
	if e.Horizon == 0 {
		e.Horizon = 5000
	}

	if e.MaxFail == 0 {
		e.MaxFail = 5
	}

	e.Stats.Complete = true
	e.Stats.BoundReached = e.Bound
	e.explore(nil)
}

// Replay executes exactly one recorded schedule.
func (e *Explorer) Replay(ch []int) (sig, summary string, schedule []string) {
	if e.Horizon == 0 {
		e.Horizon = 5000
	}

	out, sig, sum := e.run(ch)

	return sig, sum, describe(out)
}
