// Package engine is the common driver of all checks: sharding over worker
// processes, result merging, known-finding classification, evidence and replay
// files. See /verif/DESIGN.md 2.7.
package engine

import (
	"crypto/sha256"
	"encoding/gob"
	"encoding/hex"
	"encoding/json"
	"flag"
	"fmt"
	"hash/fnv"
	"io"
	"os"
	"os/exec"
	"path/filepath"
	"sort"
	"strings"
	"sync"
	"time"
)

const VerifRoot = "/verif"

type Check struct {
	ID          string
	Level       string // exploration | fault_enumeration | model_checking
	Rule        string // how cases are enumerated and what makes one non-trivial
	Assumptions []string
	// Shards returns the number of worker processes for a tier (1 = in process).
	Shards func(tier string) int
	Run    func(c *Ctx)
	// Replay re-executes one recorded case without the explorer.
	Replay func(c *Ctx, raw json.RawMessage)
	// RacePass, when set, is the body of the separate free-running data race pass
	// (executed in the -race build of the harness, see RunRacePass).
	RacePass func(c *Ctx)
	// Budget returns the internal deadline per tier.
	Budget func(tier string) time.Duration
}

type Violation struct {
	Signature string          `json:"signature"`
	Summary   string          `json:"summary"`
	Replay    json.RawMessage `json:"replay"`
}

type Result struct {
	Evaluations  int64
	Distinct     map[uint64]struct{}
	DistinctN    int64 // distinct cases counted exactly by the check itself (canonical representative rule)
	DistinctCap  bool
	Outcomes     map[string]int64
	States       int64
	Transitions  int64
	Traces       int64
	Samples      []json.RawMessage
	Violations   []Violation
	ViolCount    map[string]int64
	NotExhaust   []string
	Extra        map[string]int64
	Notes        []string
	MaxMapSeen   int
	InfraFailure string
}

type Ctx struct {
	Check     *Check
	Tier      string
	Shard     int
	NShards   int
	Seed      int64
	start     time.Time
	budget    time.Duration
	mu        sync.Mutex
	waitEpoch int64
	childWait int // processes this worker waits for (they are watched themselves); guarded by mu
	res       Result
}

const (
	distinctCap   = 4_000_000
	maxSamples    = 6
	maxViolKept   = 40
	maxPerSigKept = 3
)

func newCtx(ch *Check, tier string, shard, n int) *Ctx {
	c := &Ctx{Check: ch, Tier: tier, Shard: shard, NShards: n, start: time.Now()}
	c.res.Distinct = map[uint64]struct{}{}
	c.res.Outcomes = map[string]int64{}
	c.res.ViolCount = map[string]int64{}
	c.res.Extra = map[string]int64{}

	c.budget = 10 * time.Minute
	if ch.Budget != nil {
		c.budget = ch.Budget(tier)
	}

	return c
}

func (c *Ctx) Quick() bool { return c.Tier != "thorough" }

// Mine tells whether case number i belongs to this shard.
func (c *Ctx) Mine(i int) bool { return c.NShards <= 1 || i%c.NShards == c.Shard }

// Expired reports that the internal deadline has passed; the check should stop
// and the run is reported as not exhaustive (never as a violation).
func (c *Ctx) Expired() bool {
	if time.Since(c.start) > c.budget {
		c.NotExhaustive("internal deadline reached")

		return true
	}

	return false
}

func (c *Ctx) Eval(n int64) {
	c.mu.Lock()
	c.res.Evaluations += n
	c.mu.Unlock()
}

func h64(s string) uint64 {
	h := fnv.New64a()
	_, _ = h.Write([]byte(s))

	return h.Sum64()
}

// Nontrivial records a distinct non-trivial case key.
func (c *Ctx) Nontrivial(key string) {
	c.mu.Lock()
	defer c.mu.Unlock()

	if len(c.res.Distinct) >= distinctCap {
		c.res.DistinctCap = true

		return
	}

	c.res.Distinct[h64(key)] = struct{}{}
}

// NontrivialN adds n distinct non-trivial cases that the check itself guarantees
// to be distinct (e.g. counted only for the canonical representative of a class).
func (c *Ctx) NontrivialN(n int64) {
	c.mu.Lock()
	c.res.DistinctN += n
	c.mu.Unlock()
}

// OutcomeN adds n observations of an outcome class.
func (c *Ctx) OutcomeN(key string, n int64) {
	if n == 0 {
		return
	}

	c.mu.Lock()
	c.res.Outcomes[key] += n
	c.mu.Unlock()
}

// Outcome counts an observed outcome class (few distinct keys expected).
func (c *Ctx) Outcome(key string) {
	c.mu.Lock()
	c.res.Outcomes[key]++
	c.mu.Unlock()
}

func (c *Ctx) Count(key string, n int64) {
	c.mu.Lock()
	c.res.Extra[key] += n
	c.mu.Unlock()
}

func (c *Ctx) MaxMap(n int) {
	c.mu.Lock()
	if n > c.res.MaxMapSeen {
		c.res.MaxMapSeen = n
	}
	c.mu.Unlock()
}

func (c *Ctx) States(n int64)      { c.mu.Lock(); c.res.States += n; c.mu.Unlock() }
func (c *Ctx) Transitions(n int64) { c.mu.Lock(); c.res.Transitions += n; c.mu.Unlock() }
func (c *Ctx) Traces(n int64)      { c.mu.Lock(); c.res.Traces += n; c.mu.Unlock() }

func (c *Ctx) Note(format string, args ...any) {
	c.mu.Lock()
	c.res.Notes = append(c.res.Notes, fmt.Sprintf(format, args...))
	c.mu.Unlock()
}

func (c *Ctx) NotExhaustive(reason string) {
	c.mu.Lock()
	defer c.mu.Unlock()

	for _, r := range c.res.NotExhaust {
		if r == reason {
			return
		}
	}

	c.res.NotExhaust = append(c.res.NotExhaust, reason)
}

func (c *Ctx) Sample(v any) {
	c.mu.Lock()
	defer c.mu.Unlock()

	if len(c.res.Samples) >= maxSamples {
		return
	}

	b, err := json.Marshal(v)
	if err != nil {
		b, _ = json.Marshal(fmt.Sprintf("%+v", v))
	}

	c.res.Samples = append(c.res.Samples, b)
}

// WantSample is a cheap pre-check so that callers only build sample values when needed.
func (c *Ctx) WantSample() bool {
	c.mu.Lock()
	defer c.mu.Unlock()

	return len(c.res.Samples) < maxSamples
}

// Violation records a failing case. signature is a narrow, cause specific
// structural predicate (see known_findings.json); replay is the JSON case that
// Check.Replay re-executes.
func (c *Ctx) Violation(signature, summary string, replay any) {
	c.mu.Lock()
	defer c.mu.Unlock()

	c.res.ViolCount[signature]++

	if c.res.ViolCount[signature] > maxPerSigKept || len(c.res.Violations) >= maxViolKept {
		return
	}

	b, err := json.Marshal(replay)
	if err != nil {
		b, _ = json.Marshal(fmt.Sprintf("%+v", replay))
	}

	c.res.Violations = append(c.res.Violations, Violation{Signature: signature, Summary: summary, Replay: b})
}

func (c *Ctx) Infra(format string, args ...any) {
	c.mu.Lock()
	c.res.InfraFailure = fmt.Sprintf(format, args...)
	c.mu.Unlock()
}

// ---------------------------------------------------------------------------

type knownFinding struct {
	Property  string `json:"property"`
	Signature string `json:"signature"`
	What      string `json:"what"`
	Status    string `json:"status"` // "known" | "fixed"
}

func loadKnown() []knownFinding {
	b, err := os.ReadFile(filepath.Join(VerifRoot, "known_findings.json"))
	if err != nil {
		return nil
	}

	var f struct {
		Findings []knownFinding `json:"findings"`
	}

	if err := json.Unmarshal(b, &f); err != nil {
		fmt.Fprintf(os.Stderr, "known_findings.json: %v\n", err)
		os.Exit(2)
	}

	return f.Findings
}

func merge(dst *Result, src *Result) {
	dst.Evaluations += src.Evaluations
	dst.DistinctN += src.DistinctN
	dst.States += src.States
	dst.Transitions += src.Transitions
	dst.Traces += src.Traces
	dst.DistinctCap = dst.DistinctCap || src.DistinctCap

	for k := range src.Distinct {
		dst.Distinct[k] = struct{}{}
	}

	for k, v := range src.Outcomes {
		dst.Outcomes[k] += v
	}

	for k, v := range src.Extra {
		dst.Extra[k] += v
	}

	for k, v := range src.ViolCount {
		dst.ViolCount[k] += v
	}

	for _, s := range src.Samples {
		if len(dst.Samples) < maxSamples {
			dst.Samples = append(dst.Samples, s)
		}
	}

	dst.Violations = append(dst.Violations, src.Violations...)

	for _, r := range src.NotExhaust {
		found := false

		for _, x := range dst.NotExhaust {
			if x == r {
				found = true
			}
		}

		if !found {
			dst.NotExhaust = append(dst.NotExhaust, r)
		}
	}

	dst.Notes = append(dst.Notes, src.Notes...)

	if src.MaxMapSeen > dst.MaxMapSeen {
		dst.MaxMapSeen = src.MaxMapSeen
	}

	if src.InfraFailure != "" {
		dst.InfraFailure = src.InfraFailure
	}
}

// Main is the entry point of the harness binary.
func Main(checks map[string]*Check) {
	if len(os.Args) < 2 {
		fmt.Fprintln(os.Stderr, "usage: vh <Cxx> [--tier quick|thorough] | vh replay <file>")
		os.Exit(2)
	}

	if os.Args[1] == "replay" {
		replayMain(checks)

		return
	}

	id := os.Args[1]

	ch, ok := checks[id]
	if !ok {
		fmt.Fprintf(os.Stderr, "unknown check %s\n", id)
		os.Exit(2)
	}

	if len(os.Args) > 2 && os.Args[2] == "--racepass" {
		if ch.RacePass == nil {
			os.Exit(2)
		}

		tier := "quick"
		if len(os.Args) > 3 {
			tier = os.Args[3]
		}

		c := newCtx(ch, tier, 0, 1)
		stop := startWatchdog(c, func(site, stack string, idle time.Duration) {
			if site == "" {
				hangAsCrash(site, stack, idle)
			}

			b, _ := json.Marshal(map[string]string{"signature": "hung-in-heimdall-code/" + site,
				"summary": fmt.Sprintf("no progress and no processor use for %s; a goroutine waits for a lock that is never released:\n%s", idle.Round(time.Second), firstLines(stack, 14))})
			fmt.Printf("RACEPASS-VIOLATION %s\n", b)
			fmt.Printf("RACEPASS-EXECUTIONS %d\n", c.res.Evaluations)
			os.Exit(0)
		})
		ch.RacePass(c)
		stop()
		fmt.Printf("RACEPASS-EXECUTIONS %d\n", c.res.Evaluations)

		// violations the pass itself found (observations of the concurrent executions that differ from the sequential
		// ones) travel to the parent as lines
		for _, v := range c.res.Violations {
			b, _ := json.Marshal(map[string]string{"signature": v.Signature, "summary": v.Summary})
			fmt.Printf("RACEPASS-VIOLATION %s\n", b)
		}

		return
	}

	fs := flag.NewFlagSet("vh", flag.ExitOnError)
	tier := fs.String("tier", envOr("VERIF_TIER", "quick"), "quick|thorough")
	shard := fs.Int("shard", -1, "worker shard (internal)")
	nshards := fs.Int("nshards", 1, "number of shards (internal)")
	partial := fs.String("partial", "", "partial result file (internal)")
	_ = fs.Parse(os.Args[2:])

	if *shard >= 0 {
		c := newCtx(ch, *tier, *shard, *nshards)
		stop := startWatchdog(c, hangAsCrash)
		ch.Run(c)
		stop()
		writePartial(*partial, &c.res)

		return
	}

	start := time.Now()
	n := 1

	if ch.Shards != nil {
		n = ch.Shards(*tier)
	}

	total := newCtx(ch, *tier, 0, 1)
	removeTmp := func() {}

	if n < 1 {
		n = 1
	}

	{
		tmp, err := os.MkdirTemp(filepath.Join(VerifRoot, ".work"), "part-"+id+"-")
		if err != nil {
			fmt.Fprintln(os.Stderr, err)
			os.Exit(2)
		}

		removeTmp = func() { _ = os.RemoveAll(tmp) }

		var wg sync.WaitGroup

		results := make([]*Result, n)
		errs := make([]error, n)
		crashes := make([]*Violation, n)

		for i := 0; i < n; i++ {
			wg.Add(1)

			go func(i int) {
				defer wg.Done()

				pf := filepath.Join(tmp, fmt.Sprintf("p%d.gob", i))
				cmd := exec.Command(os.Args[0], id, "--tier", *tier, "--shard", fmt.Sprint(i),
					"--nshards", fmt.Sprint(n), "--partial", pf)
				cmd.Stdout = os.Stderr

				tail := &tailBuffer{max: 64 << 10}
				cmd.Stderr = io.MultiWriter(os.Stderr, tail)

				if err := cmd.Run(); err != nil {
					// a worker that dies in a panic raised inside heimdall code did not finish its part of the exploration
					// because the implementation crashed where the harness calls it like production does: that is a
					// finding about the implementation, not an infrastructure problem
					if site := crashSite(tail.String()); site != "" {
						kind := "worker-crashed-in-heimdall-code/"
						if strings.Contains(tail.String(), watchdogMark) {
							kind = "worker-hung-in-heimdall-code/"
						}

						crashes[i] = &Violation{
							Signature: kind + site,
							Summary:   "shard " + fmt.Sprint(i) + " died: " + firstLines(tail.String(), 12),
							Replay:    json.RawMessage(`{"worker_crash":true}`),
						}

						return
					}

					errs[i] = fmt.Errorf("shard %d: %w", i, err)

					return
				}

				r, err := readPartial(pf)
				if err != nil {
					errs[i] = err

					return
				}

				results[i] = r
			}(i)
		}

		wg.Wait()

		for i := 0; i < n; i++ {
			if errs[i] != nil {
				fmt.Fprintf(os.Stderr, "INFRA: %v\n", errs[i])
				removeTmp()
				os.Exit(2)
			}

			if crashes[i] != nil {
				total.res.Violations = append(total.res.Violations, *crashes[i])
				total.res.ViolCount[crashes[i].Signature]++
				total.res.NotExhaust = append(total.res.NotExhaust, "a worker process crashed")

				continue
			}

			merge(&total.res, results[i])
		}
	}

	removeTmp()
	os.Exit(finish(ch, *tier, &total.res, time.Since(start), n))
}

type tailBuffer struct {
	mu  sync.Mutex
	buf []byte
	max int
}

func (t *tailBuffer) Write(p []byte) (int, error) {
	t.mu.Lock()
	defer t.mu.Unlock()

	t.buf = append(t.buf, p...)
	if len(t.buf) > t.max {
		t.buf = t.buf[len(t.buf)-t.max:]
	}

	return len(p), nil
}

func (t *tailBuffer) String() string {
	t.mu.Lock()
	defer t.mu.Unlock()

	return string(t.buf)
}

// crashSite returns the innermost heimdall function of a Go crash report if the crash happened inside heimdall
// code (the first frame of the crashing goroutine that belongs to the heimdall module is not harness code).
func crashSite(stderr string) string {
	idx := strings.LastIndex(stderr, "\npanic: ")
	if f := strings.LastIndex(stderr, "\nfatal error: "); f > idx {
		idx = f
	}

	if idx < 0 {
		if strings.HasPrefix(stderr, "panic: ") || strings.HasPrefix(stderr, "fatal error: ") {
			idx = 0
		} else {
			return ""
		}
	}

	for _, line := range strings.Split(stderr[idx:], "\n") {
		line = strings.TrimSpace(line)
		if !strings.HasPrefix(line, "github.com/dadrus/heimdall/") {
			continue
		}

		if strings.Contains(line, "/verifshim/") && strings.Contains(stderr, watchdogMark) {
			continue
		}

		if strings.HasPrefix(line, "github.com/dadrus/heimdall/verif/") || strings.Contains(line, "/verifshim/") ||
			strings.Contains(line, ".Verif") {
			return ""
		}

		site := strings.TrimPrefix(line, "github.com/dadrus/heimdall/internal/")
		if i := strings.LastIndex(site, "("); i > 0 && strings.HasSuffix(site, ")") {
			site = site[:i]
		}

		return site
	}

	return ""
}

func firstLines(s string, n int) string {
	if i := strings.LastIndex(s, watchdogMark); i >= 0 {
		s = s[i:]
	} else if i := strings.LastIndex(s, "panic: "); i >= 0 {
		s = s[i:]
	}

	lines := strings.Split(s, "\n")
	if len(lines) > n {
		lines = lines[:n]
	}

	return strings.Join(lines, " | ")
}

func envOr(k, d string) string {
	if v := os.Getenv(k); v != "" {
		return v
	}

	return d
}

func writePartial(path string, r *Result) {
	f, err := os.Create(path)
	if err != nil {
		fmt.Fprintln(os.Stderr, err)
		os.Exit(2)
	}

	defer f.Close()

	if err := gob.NewEncoder(f).Encode(r); err != nil {
		fmt.Fprintln(os.Stderr, err)
		os.Exit(2)
	}
}

func readPartial(path string) (*Result, error) {
	f, err := os.Open(path)
	if err != nil {
		return nil, err
	}

	defer f.Close()

	r := &Result{}
	if err := gob.NewDecoder(f).Decode(r); err != nil {
		return nil, err
	}

	if r.Distinct == nil {
		r.Distinct = map[uint64]struct{}{}
	}

	return r, nil
}

func finish(ch *Check, tier string, r *Result, wall time.Duration, shards int) int {
	if r.InfraFailure != "" {
		fmt.Fprintf(os.Stderr, "INFRA: %s\n", r.InfraFailure)

		return 2
	}

	known := loadKnown()
	exit := 0

	// group violations by signature, deterministic order
	bySig := map[string][]Violation{}

	var sigs []string

	for _, v := range r.Violations {
		if _, ok := bySig[v.Signature]; !ok {
			sigs = append(sigs, v.Signature)
		}

		bySig[v.Signature] = append(bySig[v.Signature], v)
	}

	sort.Strings(sigs)

	_ = os.MkdirAll(filepath.Join(VerifRoot, "replays"), 0o755)

	unknownCount, knownCount := int64(0), int64(0)

	var findingLines []string

	for _, sig := range sigs {
		vs := bySig[sig]
		sort.Slice(vs, func(i, j int) bool { return len(vs[i].Replay) < len(vs[j].Replay) })
		v := vs[0]

		var kf *knownFinding

		for i := range known {
			if known[i].Property == ch.ID && known[i].Signature == sig && known[i].Status != "fixed" {
				kf = &known[i]
			}
		}

		sum := sha256.Sum256([]byte(ch.ID + "|" + sig))
		rp := filepath.Join(VerifRoot, "replays", fmt.Sprintf("%s-%s.json", ch.ID, hex.EncodeToString(sum[:6])))
		body, _ := json.MarshalIndent(map[string]any{
			"property": ch.ID, "signature": sig, "summary": v.Summary, "case": v.Replay,
			"occurrences_this_run": r.ViolCount[sig],
		}, "", " ")
		_ = os.WriteFile(rp, body, 0o644)

		if kf != nil {
			knownCount += r.ViolCount[sig]
			line := fmt.Sprintf("KNOWN-FINDING: property=%s %s [%s] (%d cases, e.g. %s) replay=%s",
				ch.ID, kf.What, sig, r.ViolCount[sig], oneLine(v.Summary), rp)
			fmt.Println(line)
			findingLines = append(findingLines, line)
		} else {
			unknownCount += r.ViolCount[sig]
			exit = 1
			fmt.Printf("VIOLATION property=%s replay=%s\n", ch.ID, rp)
			fmt.Printf("  signature: %s\n  cases: %d\n  first: %s\n", sig, r.ViolCount[sig], oneLine(v.Summary))
		}
	}

	exhaustive := len(r.NotExhaust) == 0

	cov := map[string]any{
		"evaluations":         r.Evaluations,
		"distinct_nontrivial": int64(len(r.Distinct)) + r.DistinctN,
		"rule":                ch.Rule,
		"samples":             r.Samples,
		"exhaustive":          exhaustive,
		"distinct_outcomes":   len(r.Outcomes),
		"outcomes":            topOutcomes(r.Outcomes, 40),
		"worker_processes":    shards,
	}

	if r.DistinctCap {
		cov["distinct_nontrivial_is_lower_bound"] = true
	}

	if !exhaustive {
		cov["not_exhaustive_because"] = r.NotExhaust
	}

	if ch.Level == "model_checking" {
		cov["states"] = r.States
		cov["transitions"] = r.Transitions
		cov["traces_validated_against_impl"] = r.Traces
	}

	for k, v := range r.Extra {
		cov[k] = v
	}

	if r.MaxMapSeen > 0 {
		cov["largest_map_iterated_under_hook"] = r.MaxMapSeen
	}

	if len(r.Notes) > 0 {
		if len(r.Notes) > 30 {
			r.Notes = r.Notes[:30]
		}

		cov["notes"] = r.Notes
	}

	if len(findingLines) > 0 {
		cov["known_findings_reproduced"] = findingLines
	}

	if len(r.Samples) == 0 {
		cov["samples"] = []string{"(no sample recorded)"}
	}

	ev := map[string]any{
		"property_id":         ch.ID,
		"tier":                tier,
		"seed":                0,
		"level":               ch.Level,
		"coverage":            cov,
		"assumptions":         ch.Assumptions,
		"wall_s":              wall.Seconds(),
		"violations":          unknownCount,
		"known_finding_cases": knownCount,
	}

	b, _ := json.MarshalIndent(ev, "", " ")
	_ = os.MkdirAll(filepath.Join(VerifRoot, "evidence"), 0o755)

	if err := os.WriteFile(filepath.Join(VerifRoot, "evidence", ch.ID+".json"), b, 0o644); err != nil {
		fmt.Fprintln(os.Stderr, err)

		return 2
	}

	fmt.Printf("%s tier=%s evaluations=%d distinct_nontrivial=%d states=%d transitions=%d outcomes=%d exhaustive=%v violations=%d known=%d wall=%.1fs\n",
		ch.ID, tier, r.Evaluations, int64(len(r.Distinct))+r.DistinctN, r.States, r.Transitions, len(r.Outcomes), exhaustive,
		unknownCount, knownCount, wall.Seconds())

	if len(r.Outcomes) <= 1 && r.Evaluations > 1 {
		fmt.Fprintf(os.Stderr, "WARNING: %s: a single distinct outcome over %d evaluations — exploration may be vacuous\n",
			ch.ID, r.Evaluations)
	}

	return exit
}

func topOutcomes(m map[string]int64, n int) map[string]int64 {
	type kv struct {
		k string
		v int64
	}

	var l []kv
	for k, v := range m {
		l = append(l, kv{k, v})
	}

	sort.Slice(l, func(i, j int) bool {
		if l[i].v != l[j].v {
			return l[i].v > l[j].v
		}

		return l[i].k < l[j].k
	})

	out := map[string]int64{}

	for i, e := range l {
		if i >= n {
			break
		}

		out[e.k] = e.v
	}

	return out
}

func oneLine(s string) string {
	s = strings.ReplaceAll(s, "\n", " | ")
	if len(s) > 600 {
		s = s[:600] + "…"
	}

	return s
}

func replayMain(checks map[string]*Check) {
	if len(os.Args) < 3 {
		fmt.Fprintln(os.Stderr, "usage: vh replay <file>")
		os.Exit(2)
	}

	b, err := os.ReadFile(os.Args[2])
	if err != nil {
		fmt.Fprintln(os.Stderr, err)
		os.Exit(2)
	}

	var rf struct {
		Property  string          `json:"property"`
		Signature string          `json:"signature"`
		Case      json.RawMessage `json:"case"`
	}

	if err := json.Unmarshal(b, &rf); err != nil {
		fmt.Fprintln(os.Stderr, err)
		os.Exit(2)
	}

	if strings.Contains(string(rf.Case), `"worker_crash"`) {
		// the recorded case is a crash of a worker process: the replay is the check itself
		fmt.Printf("replay: the recorded violation is a crashed worker (%s); re-running the %s quick check\n",
			rf.Signature, rf.Property)

		cmd := exec.Command(os.Args[0], rf.Property, "--tier", "quick")
		cmd.Stdout, cmd.Stderr = os.Stdout, os.Stderr

		if err := cmd.Run(); err != nil {
			os.Exit(1)
		}

		os.Exit(0)
	}

	ch, ok := checks[rf.Property]
	if !ok || ch.Replay == nil {
		fmt.Fprintf(os.Stderr, "no replay support for %s\n", rf.Property)
		os.Exit(2)
	}

	c := newCtx(ch, "quick", 0, 1)
	ch.Replay(c, rf.Case)

	if len(c.res.Violations) == 0 {
		fmt.Printf("replay: %s case passes on this tree\n", rf.Property)
		os.Exit(0)
	}

	for _, v := range c.res.Violations {
		fmt.Printf("replay: VIOLATION property=%s signature=%s\n  %s\n", rf.Property, v.Signature, v.Summary)
	}

	os.Exit(1)
}

// RunRacePass executes the check's RacePass in the -race build of the harness
// (free running, real sync primitives, no cooperative scheduler: its hand-offs
// would be happens-before edges that blind the detector). Every report of the
// race detector is a violation.
func RunRacePass(c *Ctx) {
	bin := filepath.Join(VerifRoot, ".work", "bin", "vh-race")
	if alt := os.Getenv("VH_RACE_BIN"); alt != "" {
		bin = alt // mutation testing builds the race variant elsewhere
	}
	if _, err := os.Stat(bin); err != nil {
		c.Infra("race build of the harness is missing: %v", err)

		return
	}

	cmd := exec.Command(bin, c.Check.ID, "--racepass", c.Tier)
	cmd.Env = append(os.Environ(), "GORACE=halt_on_error=0 exitcode=0 history_size=3")

	var stderr, stdout strings.Builder

	cmd.Stderr = &stderr
	cmd.Stdout = &stdout

	// the pass has a watchdog of its own; this worker only waits for it
	c.AwaitingChild(true)
	err := cmd.Run()
	c.AwaitingChild(false)

	out := stderr.String()

	n := int64(0)
	if i := strings.Index(stdout.String(), "RACEPASS-EXECUTIONS "); i >= 0 {
		_, _ = fmt.Sscanf(stdout.String()[i:], "RACEPASS-EXECUTIONS %d", &n)
	}

	c.Count("race_pass_executions", n)

	for _, line := range strings.Split(stdout.String(), "\n") {
		if rest, ok := strings.CutPrefix(line, "RACEPASS-VIOLATION "); ok {
			var v struct{ Signature, Summary string }
			if json.Unmarshal([]byte(rest), &v) == nil && v.Signature != "" {
				c.Violation(v.Signature, "free-running pass: "+v.Summary, map[string]any{"race_pass": true})
			}
		}
	}

	reports := strings.Split(out, "WARNING: DATA RACE")
	if len(reports) > 1 {
		seen := map[string]bool{}

		for _, rep := range reports[1:] {
			sig := "data-race/" + raceSite(rep)
			if seen[sig] {
				continue
			}

			seen[sig] = true

			if len(rep) > 3000 {
				rep = rep[:3000]
			}

			c.Violation(sig, "race detector report in the free-running pass: "+rep, map[string]any{"race_pass": true, "report": rep})
		}

		return
	}

	if err != nil || n == 0 {
		tail := out
		if len(tail) > 2000 {
			tail = tail[len(tail)-2000:]
		}

		c.Violation("race-pass/crashed", fmt.Sprintf("free-running pass did not complete: %v: %s", err, tail),
			map[string]any{"race_pass": true})
	}
}

// raceSite extracts the first two heimdall functions named in a race report.
func raceSite(rep string) string {
	var sites []string

	for _, line := range strings.Split(rep, "\n") {
		line = strings.TrimSpace(line)
		if strings.HasPrefix(line, "github.com/dadrus/heimdall/internal/") && !strings.Contains(line, "verifshim") {
			fn := strings.TrimPrefix(line, "github.com/dadrus/heimdall/internal/")
			if i := strings.IndexByte(fn, '('); i > 0 && !strings.HasPrefix(fn[i:], "(*") {
				fn = fn[:i]
			}

			if i := strings.Index(fn, "()"); i > 0 {
				fn = fn[:i]
			}

			sites = append(sites, fn)

			if len(sites) == 2 {
				break
			}
		}
	}

	if len(sites) == 0 {
		return "unknown-site"
	}

	return strings.Join(sites, "+")
}
