#!/usr/bin/env python3
"""Runs checks against a candidate property-breaking patch WITHOUT touching /repo:
the patch is applied in a scratch worktree and the changed files are injected with `vbuild -mutate`.
usage: trymutant.py <patch.diff> <Cxx> [<Cxx> ...] [--tier quick|thorough] [--keep]
Prints the VIOLATION/KNOWN-FINDING/summary lines of every check and restores the evidence files."""
import os, subprocess, sys, shutil, tempfile
args = [a for a in sys.argv[1:] if not a.startswith('--')]
tier = 'quick'
if '--tier' in sys.argv:
    tier = sys.argv[sys.argv.index('--tier') + 1]
    args.remove(tier)
patch, checks = os.path.abspath(args[0]), args[1:]
env = dict(os.environ, GOFLAGS='-mod=mod', GOPROXY='off', GOSUMDB='off', GOTOOLCHAIN='local')
wt = tempfile.mkdtemp(prefix='mutwt-', dir='/tmp')
os.rmdir(wt)
subprocess.run(['git', '-C', '/repo', 'worktree', 'add', '-q', '--detach', wt, 'HEAD'], check=True)
rc = 0
try:
    r = subprocess.run(['git', '-C', wt, 'apply', '--whitespace=nowarn', patch], capture_output=True, text=True)
    if r.returncode != 0:
        print('PATCH DOES NOT APPLY:', r.stderr.strip())
        sys.exit(3)
    st = subprocess.run(['git', '-C', wt, 'status', '--porcelain'], capture_output=True, text=True).stdout
    mut = []
    for line in st.splitlines():
        rel = line[3:].strip()
        if rel.endswith('/'):
            for root, _, files in os.walk(os.path.join(wt, rel)):
                for f in files:
                    mut.append(os.path.relpath(os.path.join(root, f), wt))
        elif line[:2].strip() != 'D':
            mut.append(rel)
    embedded = [m for m in mut if not m.endswith('.go')]
    mut = [m for m in mut if m.endswith('.go') and not m.endswith('_test.go')]
    print('changed files:', mut, 'embedded/non-go:', embedded)
    margs = []
    for m in mut:
        margs += ['-mutate', f'/repo/{m}={wt}/{m}']
    in_place = bool(embedded)  # go:embed'ed files cannot be replaced through the overlay: apply to /repo for the build only
    built = {}
    def build(variant):
        if variant in built:
            return built[variant]
        out = f'/verif/.work/bin/vh-mut-{variant}-{os.getpid()}'
        if in_place:
            if subprocess.run(['git', '-C', '/repo', 'status', '--porcelain'], capture_output=True, text=True).stdout.strip():
                print('/repo is not clean; refusing to apply the patch in place'); sys.exit(3)
            subprocess.run(['git', '-C', '/repo', 'apply', '--whitespace=nowarn', patch], check=True)
            try:
                r = subprocess.run(['/verif/.work/bin/vbuild', '-variant', variant, '-suffix', f'-{os.getpid()}', '-o', out], env=env, capture_output=True, text=True)
            finally:
                subprocess.run(['git', '-C', '/repo', 'checkout', '--', '.'], check=True)
                subprocess.run(['git', '-C', '/repo', 'clean', '-fdq'], check=True)
        else:
            r = subprocess.run(['/verif/.work/bin/vbuild', '-variant', variant, '-suffix', f'-{os.getpid()}', '-o', out] + margs, env=env, capture_output=True, text=True)
        if r.returncode != 0:
            print(f'BUILD FAILED ({variant}):', r.stderr[-1500:])
            built[variant] = None
        else:
            built[variant] = out
        return built[variant]
    for c in checks:
        variant = 'sched' if c in ('C07', 'C16') else 'base'
        b = build(variant)
        e = dict(env)
        if c in ('C07', 'C13', 'C14', 'C16', 'C17'):
            rb = build('race')
            if rb:
                e['VH_RACE_BIN'] = rb
        if not b:
            rc = 2
            continue
        r = subprocess.run([b, c, '--tier', tier], env=e, capture_output=True, text=True)
        lines = [l for l in r.stdout.splitlines() if l.startswith(('VIOLATION', 'KNOWN', c + ' tier', '  signature', '  first', '  cases'))]
        print(f'== {c}: exit {r.returncode}')
        for l in lines[:24]:
            print('   ', l[:400])
        if r.returncode == 2:
            print(r.stderr[-1500:])
        subprocess.run(['git', '-C', '/verif', 'checkout', '--', f'evidence/{c}.json'], capture_output=True)
        rc = max(rc, 0 if r.returncode == 1 else 1) if r.returncode != 1 else rc
    for b in built.values():
        if b and '--keep' not in sys.argv:
            os.remove(b)
finally:
    subprocess.run(['git', '-C', '/repo', 'worktree', 'remove', '--force', wt])
    for v in ('base', 'sched', 'race'):
        shutil.rmtree(f'/verif/.work/overlay-{v}-{os.getpid()}', ignore_errors=True)
        shutil.rmtree(f'/verif/.work/overlay-{v}-{os.getpid()}-mut', ignore_errors=True)
