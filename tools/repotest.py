#!/usr/bin/env python3
"""Runs the repository's own test suite (guard off, no overlay) and compares with BASELINE.json:
every test in stable_pass must pass. Usage: repotest.py [pkg pattern ...] (default ./...)"""
import json, subprocess, sys, os
base = json.load(open('/root/.vp/BASELINE.json'))
stable = set(base['stable_pass'])
pkgs = sys.argv[1:] or ['./...']
env = dict(os.environ, GOFLAGS='-mod=mod', GOPROXY='off', GOSUMDB='off')
p = subprocess.run(['go', 'test', '-json', '-vet=off', '-count=1', '-timeout', '25m'] + pkgs, cwd='/repo', env=env,
                   capture_output=True, text=True)
res = {}
for line in p.stdout.splitlines():
    try:
        e = json.loads(line)
    except Exception:
        continue
    if e.get('Action') in ('pass', 'fail', 'skip') and e.get('Test'):
        res[e['Package'] + '::' + e['Test']] = e['Action']
bad = sorted(t for t in stable if t in res and res[t] != 'pass')
missing = sorted(t for t in stable if t not in res) if pkgs == ['./...'] else []
print(f"tests seen: {len(res)}  stable_pass: {len(stable)}  failing stable: {len(bad)}  missing stable: {len(missing)}")
for t in bad[:50]:
    print("FAIL", t)
for t in missing[:20]:
    print("MISSING", t)
sys.exit(1 if bad or missing else 0)
