#!/usr/bin/env python3
"""Prints the markdown table of DESIGN.md 0.3 from /verif/evidence/*.json (what the last run of every check covered)."""
import glob, json

kf = json.load(open('/verif/known_findings.json'))['findings']
print('| id | level | tier | evaluations | distinct non-trivial | states | transitions | exhaustive | wall s | result |')
print('|---|---|---|---|---|---|---|---|---|---|')
for f in sorted(glob.glob('/verif/evidence/C*.json')):
    e = json.load(open(f))
    c = e['coverage']
    pid = e['property_id']
    known = len([x for x in kf if x['property'] == pid and x.get('status') != 'fixed'])
    fixed = len({x['commit'] for x in kf if x['property'] == pid and x.get('status') == 'fixed'})
    res = 'holds' if e['violations'] == 0 else f"{e['violations']} VIOLATIONS"
    if known:
        res = f'{known} known-finding signatures'
    if fixed:
        res += f' ({fixed} fix commits)'
    n = lambda v: f'{v:,}'.replace(',', ' ') if v else ''
    print(f"| {pid} | {e['level'].replace('_', ' ')} | {e['tier']} | {n(c.get('evaluations'))} | {n(c.get('distinct_nontrivial'))} | "
          f"{n(c.get('states'))} | {n(c.get('transitions'))} | {c.get('exhaustive')} | {e['wall_s']:.0f} | {res} |")
