#!/usr/bin/env python3
"""Confirms a property-breaking change written by a sub-agent and runs checks against it.

usage: seed.py <Cxx> <variant> [--checks C01,C12] [--no-suite] [--tier quick] [--root /tmp/seed2 --name c] [--recheck]

 1. fresh scratch worktree of /repo HEAD: demo passes on the clean tree
 2. patch applied: `go build ./...` ok, demo FAILS, the repository's suite still passes every stable test
 3. the checks (default: the property's own) are run against the patch through tools/trymutant.py
 4. everything is recorded in /verif/seeded/<Cxx><variant>/ (patch.diff, demo, HOWTO, DESCRIPTION, meta.json)
"""
import json, os, re, shutil, subprocess, sys, tempfile

pid, var = sys.argv[1], sys.argv[2]
checks = [pid]
if '--checks' in sys.argv:
    checks = sys.argv[sys.argv.index('--checks') + 1].split(',')
tier = sys.argv[sys.argv.index('--tier') + 1] if '--tier' in sys.argv else 'quick'
root = sys.argv[sys.argv.index('--root') + 1] if '--root' in sys.argv else '/tmp/seed'
name = sys.argv[sys.argv.index('--name') + 1] if '--name' in sys.argv else var  # recorded as /verif/seeded/<Cxx><name>
src = f'{root}/{pid}/seed_out/{var}'
dst = f'/verif/seeded/{pid}{name}'
env = dict(os.environ, GOFLAGS='-mod=mod', GOPROXY='off', GOSUMDB='off')
if '--recheck' in sys.argv:
    # only re-run the checks against an already confirmed change and update its record
    meta = json.load(open(f'{dst}/meta.json'))
    r = subprocess.run(['python3', '/verif/tools/trymutant.py', f'{dst}/patch.diff'] + checks + ['--tier', tier], capture_output=True, text=True)
    print(r.stdout[-2500:])
    meta.setdefault('earlier_results', []).append(meta.get('checks'))
    res = meta.get('checks', {}) or {}
    for c in checks:
        mm = re.search(rf'== {c}: exit (\d+)', r.stdout)
        sigs = re.findall(r'signature: (.*)', r.stdout.split(f'== {c}:')[1].split('== C')[0]) if f'== {c}:' in r.stdout else []
        res[c] = {'exit': int(mm.group(1)) if mm else None, 'detected': bool(mm and mm.group(1) == '1'), 'signatures': sigs[:8]}
    meta['checks'] = res
    json.dump(meta, open(f'{dst}/meta.json', 'w'), indent=1)
    print('updated', dst, '->', {c: res[c]['detected'] for c in res})
    sys.exit(0)
howto = open(f'{src}/HOWTO.txt').read()
demo = 'demo_test.go' if os.path.exists(f'{src}/demo_test.go') else None
m = re.search(r'cp\s+seed_out/\w+/(\S+)\s+(\S+)', howto)
t = re.search(r'go test[^\n]*?-run\s+(\S+)[^\n]*?\s(\./\S+)', howto)
if not (m and t):
    print('cannot parse HOWTO'); sys.exit(2)
demo_src, demo_dst, run_pat, pkg = m.group(1), m.group(2), t.group(1).strip('\'"'), t.group(2)
meta = {'property': pid, 'variant': name, 'demo': {'file': demo_src, 'placed_at': demo_dst, 'run': f'go test -vet=off -count=1 -run {run_pat} {pkg}'}}

wt = tempfile.mkdtemp(prefix='seedwt-', dir='/tmp'); os.rmdir(wt)
subprocess.run(['git', '-C', '/repo', 'worktree', 'add', '-q', '--detach', wt, 'HEAD'], check=True)
meta['repo_head'] = subprocess.run(['git', '-C', '/repo', 'rev-parse', '--short', 'HEAD'], capture_output=True, text=True).stdout.strip()
ok = True
try:
    def run_demo():
        os.makedirs(os.path.dirname(f'{wt}/{demo_dst}'), exist_ok=True)
        shutil.copy(f'{src}/{demo_src}', f'{wt}/{demo_dst}')
        r = subprocess.run(['go', 'test', '-vet=off', '-count=1', '-run', run_pat, pkg], cwd=wt, env=env, capture_output=True, text=True)
        os.remove(f'{wt}/{demo_dst}')
        return r.returncode, (r.stdout + r.stderr)[-1500:]
    rc, out = run_demo()
    meta['demo_clean'] = 'pass' if rc == 0 else 'FAIL'
    if rc != 0:
        print('demo does not pass on the clean tree:\n', out); ok = False
    r = subprocess.run(['git', '-C', wt, 'apply', '--whitespace=nowarn', f'{src}/patch.diff'], capture_output=True, text=True)
    if r.returncode != 0:
        print('patch does not apply:', r.stderr); sys.exit(3)
    meta['files_changed'] = subprocess.run(['git', '-C', wt, 'diff', '--stat'], capture_output=True, text=True).stdout.strip().splitlines()
    r = subprocess.run(['go', 'build', './...'], cwd=wt, env=env, capture_output=True, text=True)
    meta['build'] = 'ok' if r.returncode == 0 else 'FAIL'
    if r.returncode != 0:
        print('build fails:', r.stderr[-800:]); ok = False
    rc, out = run_demo()
    meta['demo_patched'] = 'fail (as required)' if rc != 0 else 'PASSES'
    meta['demo_patched_output_tail'] = out[-600:]
    if rc == 0:
        print('demo does not fail with the patch'); ok = False
    if '--no-suite' not in sys.argv and ok:
        base = json.load(open('/root/.vp/BASELINE.json')); stable = set(base['stable_pass'])
        p = subprocess.run(['go', 'test', '-json', '-vet=off', '-count=1', '-timeout', '25m', './...'], cwd=wt, env=env, capture_output=True, text=True)
        res = {}
        for line in p.stdout.splitlines():
            try:
                e = json.loads(line)
            except Exception:
                continue
            if e.get('Action') in ('pass', 'fail', 'skip') and e.get('Test'):
                res[e['Package'] + '::' + e['Test']] = e['Action']
        bad = sorted(x for x in stable if x in res and res[x] != 'pass')
        missing = sorted(x for x in stable if x not in res)
        if bad or missing:
            # timing dependent tests flake when the machine is loaded: re-run the failing packages once
            pkgs = sorted({x.split('::')[0] for x in bad + missing})
            p2 = subprocess.run(['go', 'test', '-json', '-vet=off', '-count=1', '-timeout', '25m'] + pkgs, cwd=wt, env=env, capture_output=True, text=True)
            for line in p2.stdout.splitlines():
                try:
                    e = json.loads(line)
                except Exception:
                    continue
                if e.get('Action') in ('pass', 'fail', 'skip') and e.get('Test'):
                    res[e['Package'] + '::' + e['Test']] = e['Action']
            bad = sorted(x for x in stable if x in res and res[x] != 'pass')
            missing = sorted(x for x in stable if x not in res)
        meta['suite'] = {'stable_tests': len(stable), 'failing': bad[:20], 'missing': missing[:20]}
        if bad or missing:
            print('existing suite does not pass with the patch:', bad[:5], missing[:5]); ok = False
finally:
    subprocess.run(['git', '-C', '/repo', 'worktree', 'remove', '--force', wt])

meta['confirmed'] = ok
print('confirmed:', ok, json.dumps({k: meta[k] for k in ('demo_clean', 'build', 'demo_patched') if k in meta}))
results = {}
if ok:
    r = subprocess.run(['python3', '/verif/tools/trymutant.py', f'{src}/patch.diff'] + checks + ['--tier', tier], capture_output=True, text=True)
    print(r.stdout[-3000:])
    for c in checks:
        mm = re.search(rf'== {c}: exit (\d+)', r.stdout)
        sigs = re.findall(r'signature: (.*)', r.stdout.split(f'== {c}:')[1].split('== C')[0]) if f'== {c}:' in r.stdout else []
        results[c] = {'exit': int(mm.group(1)) if mm else None, 'detected': bool(mm and mm.group(1) == '1'), 'signatures': sigs[:8]}
    meta['checks'] = results
    meta['ran'] = f'tools/trymutant.py patch.diff {" ".join(checks)} --tier {tier}'
    os.makedirs(dst, exist_ok=True)
    for f in ('patch.diff', demo_src, 'HOWTO.txt', 'DESCRIPTION.txt'):
        if os.path.exists(f'{src}/{f}'):
            shutil.copy(f'{src}/{f}', f'{dst}/{f}')
    desc = open(f'{src}/DESCRIPTION.txt').read() if os.path.exists(f'{src}/DESCRIPTION.txt') else ''
    meta['needs_to_manifest'] = desc[:1500]
    json.dump(meta, open(f'{dst}/meta.json', 'w'), indent=1)
    print('recorded in', dst, '->', {c: results[c]['detected'] for c in results})
