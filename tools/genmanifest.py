#!/usr/bin/env python3
"""Generates /verif/MANIFEST.json from the table below. Run after adding a check."""
import json, subprocess

# id -> (level, engine, technique, level text, level note, design ref)
CHECKS = {
 "C01": ("exploration", "enum",
   "bounded exhaustive enumeration of pipeline structures x flags x error pipelines x rule sources with lazily enumerated step-outcome decision trees through the three assembled real services against a reference decision function",
   "Every pipeline structure of the alphabet (1-2 authenticators, 0-2 authorizer/contextualizer steps, 0-1 finalizer; conditions absent/true/false/failing; continue-on-error and fallback flags), every error pipeline built from the real error handler mechanisms and every reachable vector of step outcomes incl. panics is executed through the real decision and proxy handler chains and the real Envoy gRPC server; a positive answer or any upstream hit without the reference allowing it, or an executed-step trace different from the effective pipeline, is a violation.",
   "Mechanisms are scripted (their outcome is the explorer's choice); everything around them is real. The statement is one-directional, so denials of completed pipelines are counted, not judged.",
   "DESIGN.md 4 C01"),
 "C02": ("exploration", "enum",
   "bounded exhaustive enumeration of expression sets x insertion orders x backtracking flags x condition truth tables x request paths against a reference matcher (real radixtree and real rule factory/repository)",
   "Every ordered pair/triple of path expressions from a structural alphabet, every flag and condition assignment and every request path up to 3 segments is looked up in the real tree and in the real repository and compared with an executable reference of the documented specificity/backtracking rules; the space is enumerated completely within the stated alphabet.",
   "Reference matcher transcribed from the property statement and regular_rule.adoc; alphabet limited to <=3 expressions per set and segments {a,b,ab,:name,:*,**,*name,escaped}.",
   "DESIGN.md 4 C02"),
 "C06": ("model_checking", "bfs",
   "explicit-state breadth-first search over add/update/delete histories executed on the real rule-set processor, factory and repository, with a differential oracle against a freshly loaded instance in every state",
   "All histories up to depth 6 (quick) / 12 (thorough) over two sources with 10+4 rule-set versions are executed on the real objects; states are de-duplicated by the complete private structure (known-rule order, radix tree shape, value order, flags); every state is compared probe by probe with a fresh load of the current versions, and rejected operations must leave structure and matching untouched.",
   "Mechanisms scripted (always succeed); two sources, <=3 rules per set; every explored trace is an execution of the implementation, the reference is the implementation's own fresh load (differential).",
   "DESIGN.md 4 C06"),
 "C07": ("model_checking", "sched",
   "stateless model checking of the instrumented real repository: DFS over all schedules of 2-3 threads with iterative preemption bounding under a cooperative scheduler, brute-force linearizability of every execution; separate free-running -race pass",
   "Six scenarios (lookups || add/update/delete incl. rejected change, two providers, two writers on one source) are executed under every schedule with <=2 (quick) / <=3 (thorough) preemptions on the real repository code with a scheduling point before every statement and at every lock operation; every execution's history and quiescent final state must be linearizable w.r.t. the repository's own sequential behaviour; deadlocks and panics are violations; data races are observed by a separate free-running pass of the same bodies under the race detector.",
   "Code between scheduling points is assumed atomic (closed by the race pass, which is dynamic); RWMutex modelled without writer preference; <=3 threads; failing schedules are replayed twice for determinism before being reported.",
   "DESIGN.md 4 C07"),
 "C16": ("model_checking", "sched",
   "stateless model checking of the instrumented real JWT signer (all schedules of sign || reload || JWKS read up to a preemption bound) plus bounded exhaustive enumeration of key-store/claims/TTL configurations through the real finalizer with a frozen clock; separate free-running -race pass",
   "Every schedule with <=2 (quick) / <=3 (thorough) preemptions of token creation, key-store reload and a JWKS read through the management handler is executed on the real signer code (scheduling point before every statement and lock operation); every token must verify under the key published for its kid within one complete published key set and respect real-time order w.r.t. the reload; the full configuration product checks system claims, key id/algorithm and absence of private JWK members against the body of the real JWKS endpoint.",
   "go-jose and key parsing run atomically between scheduling points (closed by the dynamic race pass); the key file is switched before the reload thread starts; verification of tokens uses go-jose's verifier with keys taken from the JWKS body.",
   "DESIGN.md 4 C16"),
 "C12": ("exploration", "enum",
   "bounded exhaustive enumeration of error chains x wrappers x status overrides x verbose x Accept through the real HTTP and gRPC error translators in isolation and through the three assembled services with real error-handler mechanisms",
   "Full product of error values (12 error atoms, chains of head + <=2 causes [3 thorough], fmt/Join wrappers, with/without context) x 9 override sets x verbose x 9 Accept headers on both translators, and the assembled decision/proxy/Envoy services with real rules whose scripted steps fail and whose error pipeline is a real default/redirect/www_authenticate handler; oracle is the status table of the statement, agreement between HTTP and gRPC, never 2xx, body only when verbose in a negotiated type.",
   "Which of several different heimdall kinds in one chain wins is a don't-care; behaviour when content negotiation fails is recorded, not judged; scripted mechanisms are the only stand-in inside otherwise real rule objects.",
   "DESIGN.md 4 C12"),
 "C13": ("exploration", "enum",
   "bounded exhaustive enumeration of logical requests through the three assembled real services loaded with one rule set of real view-reading mechanisms; pairwise differential oracle",
   "Full product of method x scheme x 6 rules x 4 path ids (plain, percent-encoded, encoded slash, UTF-8) x queries x header variants (repeated, lower-case) x cookies x bodies, each sent through the real decision and proxy handler chains and the real Envoy gRPC server; decision, every request-view component echoed by a header finalizer (method, URL parts, captures, headers, cookies, decoded body) and the headers/cookies handed upstream must be pairwise equal.",
   "Envoy's rendering of a request as CheckRequest is an environment model (path=escaped path, query=raw query, lower-cased header map, body in body and raw_body), the one the repository's tests use; client address list is not compared.",
   "DESIGN.md 4 C13"),
 "C09": ("exploration", "enum",
   "bounded exhaustive enumeration of trusted_proxies lists x peer addresses x all 2^7 forwarded-header subsets (x spellings x repetition) through the real decision and proxy handler chains; differential oracle for untrusted peers, override table for trusted peers",
   "For every combination the request is sent with and without the seven forwarded headers through the real middleware chain (trustedproxy first), real request context extraction, real rules keyed on scheme/host/method/path and an echoing finalizer; for an untrusted peer nothing observable may differ and no spoofed value may reach the recording upstream; for a trusted peer each present header must override exactly its component.",
   "Reference reading of 'listed in trusted_proxies': parsable peer address equal to / contained in a parsable entry; X-Forwarded-Path semantics and the choice among repeated fields are not judged.",
   "DESIGN.md 4 C09"),
 "C08": ("exploration", "enum",
   "bounded exhaustive enumeration of all re-encodings of designated unreserved octets and all encoded-slash insertions x rule-set shapes x encoded-slash settings through the real decision and proxy services; metamorphic oracle against the canonical spelling plus the encoded-slash table",
   "Every spelling of three canonical paths in which any subset of up to five unreserved octets is percent-encoded in upper or lower hex (3^5 per path) and every insertion of %2F/%2f into the last segment is sent as raw bytes through http.ReadRequest and the real handler chains for five rule-set shapes and the three settings; matched rule, captures and decision must equal those of the canonical spelling; encoded slashes must be rejected (off/default rule), preserved (no_decode) or decoded (on) in captures and in the request line received by the recording upstream.",
   "Paths of <=3 segments; reserved characters other than '/' are not explored; hex case of a preserved escape is not judged.",
   "DESIGN.md 4 C08"),
 "C15": ("exploration", "enum",
   "bounded exhaustive enumeration of request URLs x rewrite configurations x encoded-slash settings, methods x bodies, and colliding client/pipeline header sets x forwarded-header subsets x peers through the real proxy handler chain, real ReverseProxy and a recording upstream; reference rewrite on octets",
   "Three full products are sent as raw request bytes through the real proxy service to a recording upstream on loopback: every path of the alphabet x query x every rewrite configuration x setting; methods x body sizes; pipeline headers against every subset/casing/repetition of same-named client headers with all subsets of client-sent forwarded headers from trusted and untrusted peers; the received request line, headers and body are compared with a reference rewrite (strip then add on the escaped path, escapes byte-identical, no double encoding, query multiset minus removed names, one field per pipeline header, forwarded headers regenerated).",
   "With allow_encoded_slashes=on only the decoded path and absence of double encoding are compared; parameter order and semicolon queries are not judged.",
   "DESIGN.md 4 C15"),
 "C18": ("model_checking", "bfs",
   "explicit-state breadth-first search over source-event / fetch-outcome histories per provider, every history executed on the real provider (real parser, processor, factory, repository), state fingerprint incl. provider-private remembered hashes; convergence and exactly-once oracle in every quiescent state",
   "For file_system (inotify-faithful event sequences incl. duplicated and reordered delivery), http_endpoint (11-13 fetch outcomes per poll on two endpoints), cloud_blob (real ruleSetEndpoint over a scripted in-process gocloud driver with list/attribute/read faults) and kubernetes (informer callbacks incl. resync, tombstones, status-client faults) all histories up to depth 4-5 (quick) / 5-6 (thorough) are replayed on fresh real providers; at every quiescent state the active rule sets must equal the latest valid content of the existing sources and the processor log must show every change applied exactly once; panics in provider code are violations.",
   "The fsnotify/gocron/informer machinery is replaced by an environment model of the events it delivers (documented in the evidence assumptions); 5xx from an HTTP endpoint may preserve or remove (don't-care).",
   "DESIGN.md 4 C18"),
 "C20": ("exploration", "enum",
   "bounded exhaustive enumeration of file/environment splits (all subsets), conflicts, environment permutations and map iteration orders over structurally diverse configuration leaves, plus a schema-versus-loader product over every mechanism type and option, all through the real config.NewConfiguration and the real mechanism factory",
   "For 7 leaf families (scalars, nested scalars, names with underscores, lists of structs with nested maps, lists inside structs inside lists, durations, sizes, booleans) every subset of leaves is given via the environment and the rest via the file, every leaf in both with different values, every permutation (<=5 variables) / rotation of the environment and every Go map iteration order with <=1 (quick) / <=2 (thorough) deviating iterations; the resulting Configuration must be deep-equal to the all-in-file load. For every mechanism kind/type/option the minimal configuration is given once in the file (schema validated) and once purely via the environment and must be usable (load + catalogue instantiation) in both or neither.",
   "Environment values whose type clashes with the structure are don't-care (documented: refuses to start); maps with more than 8 entries are not exhaustively ordered (reported); nil vs empty collections compare equal.",
   "DESIGN.md 4 C20"),
 "C03": ("exploration", "enum",
   "bounded exhaustive enumeration of matcher definitions (scheme, method lists, host lists, route shapes, path_params, encoded-slash settings) x requests through the real decision service against a reference matcher and decoded-capture model",
   "Two full products: scheme x 7 method lists x all host lists of length 0-2 over exact/glob/regex expressions x (3 methods x 2 schemes x 5 hosts); 7 route shapes x path_params on every named wildcard (exact/glob/regex, matching or not) x 3 settings x all request paths of the segment alphabet (plain, %20, %5B..%5D, %2F, %2f); each through real request parsing, rule factory, radix tree, matchers, rule execution and a header finalizer echoing Request.URL.Captures.",
   "Methods lists with exclusions only are not judged; encoded slashes under setting off belong to C08.",
   "DESIGN.md 4 C03"),
 "C04": ("exploration", "enum",
   "bounded exhaustive enumeration of authenticator chains (length <=3 over the six real authenticator types) x fallback flag sources x Authorization/X-Session header alphabets x remote outcomes, executed on real rules against a reference fallback walk",
   "All chains of length <=2 (quick) / <=3 (thorough) over real jwt, basic_auth, generic, oauth2_introspection, anonymous and unauthorized authenticators built by the production mechanism factory, every assignment and source (catalogue, rule-level override, inheritance) of allow_fallback_on_error, 19 Authorization header values, 5 session header values and {ok, 503, transport error} for every in-process remote; subject, error owner and contacted remotes are compared with a reference walk; chains <=2 additionally through the assembled decision service.",
   "Malformed credentials are a don't-care (observed classification recorded); docs decide that an opaque bearer token is 'not its kind' for jwt.",
   "DESIGN.md 4 C04"),
 "C05": ("exploration", "enum",
   "bounded exhaustive enumeration of tokens (valid token, every single-position mutation of its compact serialization, structural attack catalogue, claim boundary products) x key sets x assertion configurations (prototype and rule-level overrides) on the real jwt authenticator with a frozen clock, against an independent verifier on stdlib crypto",
   "For every (key type/algorithm, key set, assertion configuration, cache) scenario one valid token, every position of its serialization replaced by two other base64url characters and deleted, a catalogue of structural attacks (alg none, algorithm confusion incl. HMAC keyed by public material, kid games, foreign keys, header jwk/jku/x5u injection, extra segments, JSON serialization, duplicate claims) and all claim boundary combinations are presented to the real authenticator against an in-process JWKS endpoint; accept/reject and the produced subject must agree with an independent verifier written on encoding/* and crypto/* only.",
   "Cryptographic strength is out of scope; tokens without exp, keys without alg and base64 aliases are don't-cares; completeness is demanded only for plainly valid tokens.",
   "DESIGN.md 4 C05"),
 "C10": ("model_checking", "bfs",
   "explicit-state breadth-first search over request/advance-clock histories per (mechanism, remaining lifetime, configured TTL, cache semantics) cell on the real mechanisms with a virtual clock, in-process remotes and a recording cache (real in-memory cache and a Redis SET PX reference)",
   "For nine mechanism drivers (introspection, generic with session lifespan, jwt key cache, jwt finalizer, client credentials as finalizer and as endpoint auth strategy, RFC 7234 HTTP cache, remote authorizer and generic contextualizer overrides) every cell of remaining lifetime x configured TTL (prototype and rule override) x Cache-Control/Expires/Date combination is explored by BFS over histories of request and clock advances (menu derived from the cell) to depth 3 + directed probes (quick) / depth 5 (thorough); every Set must respect 0 < ttl <= min(configured, remaining - leeway), nothing may be answered without a remote call past its validity, TTL 0 must disable caching.",
   "The real Redis client is represented by a reference cache; Date-derived response age and the undocumented 10 s margins are counted don't-cares; clock granularity 1 s.",
   "DESIGN.md 4 C10"),
 "C19": ("fault_enumeration", "enum",
   "exhaustive fault enumeration: every truncation offset and every single-block removal of valid and unsupported PEM bundles through the real loaders and reload callbacks, a type-confusion grammar and every truncation offset over rule-set documents and remote responses, and menus of malformed requests through the assembled services; each case under recover at the real entry point, unrecoverable crashes observed in child processes",
   "Key and trust stores (every supported and several unsupported shapes, issuer cycles) truncated at every byte offset and with every block removed are fed to jwt signer, TLS key store, http message signatures and trust store construction and OnChanged; rule-set documents with every node replaced by each of 8 foreign values, keys removed/duplicated and every truncation offset go through ParseRules, the rule-set processor and the file_system provider callback; JWKS/metadata/introspection/identity/authorization/contextualizer responses through the real mechanisms; malformed HTTP and Envoy requests through the assembled services incl. recovery layers; after every case the previous state must still answer and a following valid change must be applied.",
   "Byte contents other than truncations, block removals and the grammar are not explored (that would be fuzzing); resource exhaustion is out of scope; fsnotify itself is replaced by calling the registered listeners (30 cases are confirmed with the real watcher in a process of their own).",
   "DESIGN.md 4 C19"),
 "C11": ("exploration", "enum",
   "bounded exhaustive enumeration of mechanism configurations x request pairs (identical, differing in exactly one component, boundary-shifted) x Go map iteration orders on the real caching mechanisms with pure-function in-process remotes and a recording cache; differential oracle cache-primed versus empty cache",
   "For eight mechanism families (remote authorizer, generic contextualizer, generic authenticator, jwt authenticator key cache, introspection, jwt finalizer, client credentials, RFC 7234 http cache) the full product of configurations (0-3 endpoint headers, values, payload templates, forwarded headers/cookies, auth strategies, rule-level overrides) x pair kinds is executed: the result for B with the cache primed by A must equal B's result against an empty cache, and an identical second request must hit the cache with the same key under every map iteration order reachable with <=1 (quick) / <=2 (thorough) deviating iterations.",
   "Remotes are pure functions of the complete received request, so the influencing set is derived from what was actually sent; maps with more than 8 entries are not exhaustively ordered; pairs only.",
   "DESIGN.md 4 C11"),
 "C14": ("exploration", "enum",
   "bounded exhaustive enumeration of default rules x rule definitions (every step-kind sequence up to length 4, on_error, backtracking setting, operation mode, forward_to, broken single steps) through the real rule factory, processor, repository and executor with a trace-recording scripted mechanism factory against a reference inheritance model",
   "Every default rule shape (17) x every execute sequence of length 0-3 (quick) / 0-4 (thorough) over the four step kinds x on_error x backtracking_enabled x mode x forward_to, plus every single step made unknown or given a rejected override, is loaded through the real rule-set processor; the load result must equal the acceptance predicate of the statement and, for accepted rules, the mechanisms executed for three request modes must equal the stage-wise effective pipeline; backtracking is observed behaviourally next to a less specific rule.",
   "Mechanisms are scripted; only which of them run and in which order is observed.",
   "DESIGN.md 4 C14"),
 "C17": ("model_checking", "bfs",
   "explicit-state breadth-first search over derive/execute histories per mechanism type on real mechanisms from the production factory, with a deep reflection fingerprint (incl. unexported fields) as state and a differential oracle against isolated fresh builds; separate free-running -race pass of concurrent executions and derivations",
   "For 22 mechanism kinds (all 19 types, jwt and introspection with and without metadata endpoint, a control kind) every history of derive(override) and exec(object, probe) up to depth 3-4 (quick) / 4-5 (thorough) is replayed on a fresh production factory; after every operation the deep fingerprint of the prototype and of all earlier variants must be unchanged, the behaviour of every object (result, remote requests, cache operations) must equal that of an object built in isolation with the same override, and results through another object's cache entry must equal a cold-cache run; the free-running pass executes prototype and variants from 4 goroutines (first use included) and derivation concurrently with execution under the race detector.",
   "Foreign objects (CEL programs, templates, keys) are compared by identity/hash; the race pass observes only the interleavings that ran (dynamic); clock frozen.",
   "DESIGN.md 4 C17"),
}

# what the seeding rounds added to the drivers (appended to the level text)
ADDENDA = {
 "C01": "verbose error responses with an Accept header no body format exists for; every combination of the fallback flag on one and two authenticators.",
 "C02": "a clone of the tree disturbed after cloning; every rule-level configuration also reached through an update from a version with a changed first rule.",
 "C03": "methods as a set (exclusions anywhere), host and path_params globs with the same text, dotted / slash-containing / percent-containing values, a combined conditions x routes product.",
 "C04": "a slice of 3-chains in the quick tier; a well-formed HS256 token MAC'ed with the published key set.",
 "C05": "hierarchic scope configurations and tokens; leeway-only rule-level override in the quick tier.",
 "C06": "15+7 versions (method-restricted rule above a child owned by the other source, identical rule definition in both sources, wildcard renames, two routes on one expression); a change may only be rejected if the resulting sets do not load into an empty instance; panics of the repository are violations; BFS levels are expanded by a worker pool and merged in enumeration order.",
 "C07": "every rule carries hosts and methods matchers, so state shared inside the rule factory between concurrently loading providers is in reach of the race pass; thorough: unbounded exploration with context switches at lock operations only.",
 "C08": "designated octets always include the first and last octet of the path and of every segment (6 quick / 9 thorough); rules with different encoded-slash settings on one expression.",
 "C09": "configurations are produced by the real loader from YAML files, five of them with different lists for the decision and the proxy service; single IPv6 entries with neighbouring peers; X-Forwarded-Uri in authority and absolute form.",
 "C12": "the challenge the real www_authenticate handler records (prototype x rule-level realm x derivation/execution order of other family members).",
 "C13": "bodies of unknown length (chunked transfer), repeated cookie names, ids with encoded percent signs, static segments with escapes.",
 "C14": "a real-mechanism part: every ordered pair (thorough: triple) of 14 valid and malformed rules over real mechanisms and CEL conditions created by one production factory; each is accepted/rejected and behaves by its own definition whatever was loaded before.",
 "C15": "typed bodies that do or do not decode x a pipeline step reading the body x known/unknown length; path segments with sub-delims, encoded percent signs and brackets; a pipeline header rendering empty.",
 "C16": "families (catalogue finalizer and rule-level ttl/claims variants through one real cache: every ordered pair/triple) and rotations (every sequence of 2-3 of 8 key store versions behind one long-lived management handler); a reload that must be rejected as a whole.",
 "C17": "unsorted multi-element lists in the catalogue, repeated expression texts with an absolute expectation for the denial message.",
 "C18": "a poll whose connection dies inside the body; kubernetes status values cycling; cloud_blob diagnosis separating a removed blob not unloaded first from the known finding.",
 "C19": "documents the repository alone rejects (followed by further changes), non-string keys, RSA-2560 bundles, rule-level assertions.scopes of wrong types.",
 "C20": "assertion options on all metadata_endpoint variants.",
}

# rounds 4 and 5
ADDENDA5 = {
 "C01": "Communication errors caused by a cancelled or expired context; service instances logging at trace level.",
 "C02": "Rules whose first route (same expression) has a path_params condition that never holds.",
 "C03": "Every route case also through the Envoy service; request targets with an empty first segment.",
 "C04": "The session credential in the query and in cookies (malformed neighbours, repeated names), same decision demanded. In the body (form, JSON, content types with malformed parameters) and among sloppy cookies; every placement also as Envoy hands the request over. A jwt authenticator with an issuer-templated key set URL.",
 "C05": "The three scope matchers called directly over every list of up to 3 granted and 2 required scopes: composed of the answers for single pairs; two identity providers behind one cache. Audience lists of 18; a key pinned by its own self-signed certificate in the trust store.",
 "C07": "Scenarios with a rule set that cannot be loaded followed by further changes, and with two readers asking for different hosts (regex host condition); the file_system provider while it starts; the cloud_blob scheduler with a held callback. Readers with percent-encoded paths.",
 "C08": "The Envoy service as third entry point (request target with a query in the path attribute, as Envoy sends it); settings changed by an update. Encoded slashes with every other octet of the last segment percent-encoded too (escapes beginning with %2 before the slash).",
 "C09": "Trusted addresses in upper case, expanded and IPv4-mapped notation; a canary request before every judged one. Peers whose address text extends a listed address. An IPv6 entry whose last four bytes equal an IPv4 peer. IPv6 peers whose last four bytes equal a listed IPv4 address.",
 "C10": "The jwt finalizer with a signing certificate that expires before its tokens; the RFC 7234 cells also in front of the metadata endpoint of a jwt authenticator with http_cache configured explicitly. No successful verification after the expiry of the key's certificate, also with a freshly fetched key. Sessions issued before they are first seen (issued_at). Session times written without a zone with the process in a zone west of UTC.",
 "C11": "Other origins (port, scheme) under the same host name in the httpcache family; a recording cache that keeps references and reports later writes. Numbers in remote answers observed with their Go types; the forwarded response header name in lower case; an unavailable endpoint behind a tolerant and a strict variant; two concurrent requests for different keys of one key set with the first answer held. Endpoint URLs differing in letter case only; a remote authorizer whose endpoint answers without a body.",
 "C14": "Malformed rules followed by a well-formed one; another source's rule set coming and going before the backtracking probe; settings reached by an update. Rule set documents (through ParseRules) with one list written as a mapping, a scalar or a list; non-boolean expressions without a static type.",
 "C16": "The signer behind the real, started file watcher with the key store rewritten in place (3 ways, a second watched file as the barrier); tokens as requests get them (finalizer plus shared cache) after every rotation. Verification again two years after the last rotation (certificates expired meanwhile).",
 "C18": "The kubernetes system over every history of up to 4 (5) actions on one object without state merging; the file_system provider while it starts; http_endpoint endpoints with cacheable responses against a private-cache model; the real gocron scheduler. Endpoints differing in the query only must end up as two loaded sources whatever ids the provider hands out.",
 "C19": "String values and string lists of the grammar emptied, prefixed with '!', with a broken escape / unbalanced bracket / unfinished template; peers of a TLS port that never get as far as a request line against listener.New under a net/http server; the credentials file of the redis cache. A path segment that is a lone backslash.",
 "C20": "Values of several lines (block scalars in the file); mechanism type names in other notations; ${VAR} references; isolation of loaded configurations. Typed string options that consist of digits. Integers with a leading zero, strings other parsers take for booleans.",
 "C13": "Requests that name a content type but carry no body; a free-running pass comparing concurrent answers with the ones obtained alone. A query that contains a second question mark.",
 "C15": "Form bodies with semicolons, spaced JSON with a large integer; typed bodies through a proxy logging at trace level. Query parameter names written with an escape. Empty and dot segments in request paths.",
 "C17": "The harness writes to the subject an authenticator returned the way a later pipeline step may. A metadata endpoint with headers of its own.",
 "C06": " A path that is a prefix of another source's path inside a segment (nodes merged on delete)."
}

NOT_YET = {
}

def main():
    props = [json.loads(l) for l in open('/verif/properties.jsonl')]
    checks, na = [], []
    for p in props:
        pid = p['id']
        if pid in CHECKS:
            level, engine, technique, text, note, ref = CHECKS[pid]
            if pid in ADDENDA or pid in ADDENDA5:
                text += " Added after the seeding rounds (DESIGN.md 6.4): " + " ".join(x for x in (ADDENDA.get(pid), ADDENDA5.get(pid)) if x)
            checks.append({
                "property_id": pid,
                "quick_cmd": f"bin/vcheck {pid} --tier quick",
                "thorough_cmd": f"bin/vcheck {pid} --tier thorough",
                "evidence_file": f"/verif/evidence/{pid}.json",
                "replay_cmd_template": "bin/vcheck replay {path}",
                "engine": engine,
                "level_claimed": {"category": level, "text": text, "design_ref": ref},
                "level_note": note,
                "technique": technique,
            })
        else:
            na.append({"property_id": pid, "reason": NOT_YET.get(pid,
                "check not built yet in this round (bounded exhaustive formulation is described in DESIGN.md section 4; no claim is made until the check exists and passes)")})
    m = {
        "version": 1,
        "setup_cmd": "bin/vcheck setup",
        "hooks": {
            "guard": "verif",
            "enable": "no hook is committed to /repo: private accessors (//go:build verif files), scheduler shims, instrumented copies and the std clock/map-order hooks are injected at check time with `go build -overlay -tags verif` generated by /verif/build/vbuild from /repo's current working tree",
            "baseline_off_cmd": "cd /repo && GOFLAGS=-mod=mod go test -vet=off -count=1 -timeout 25m ./...",
            "source_commits": [],
            "add_only": True,
        },
        "engines": [
            {"name": "enum", "path": "harness/engine", "serves_properties": [c for c in CHECKS if CHECKS[c][1] == "enum"],
             "kind_free_text": "bounded exhaustive enumeration of inputs/configurations/environment answers, sharded over worker processes"},
            {"name": "bfs", "path": "harness/engine", "serves_properties": [c for c in CHECKS if CHECKS[c][1] == "bfs"],
             "kind_free_text": "explicit-state breadth-first search over operation histories of the real objects (successor = replay on a fresh instance + 1 operation)"},
            {"name": "sched", "path": "shim/vsched", "serves_properties": [c for c in CHECKS if CHECKS[c][1] == "sched"],
             "kind_free_text": "stateless schedule exploration of the instrumented implementation under a cooperative scheduler with iterative preemption bounding; separate free-running -race pass"},
        ],
        "checks": checks,
        "not_applicable": na,
        "notes": "All checks are driven by bin/vcheck which regenerates the overlay from /repo's working tree and rebuilds the harness before every run. Known findings: /verif/known_findings.json.",
    }
    json.dump(m, open('/verif/MANIFEST.json', 'w'), indent=1)
    print("checks:", [c['property_id'] for c in checks], "not_applicable:", len(na))

main()
