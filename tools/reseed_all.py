#!/usr/bin/env python3
"""Re-runs the checks against every recorded seeded change (regression gate for the checks themselves).
usage: reseed_all.py [-j N] [Cxx ...]
For each /verif/seeded/<id>: the checks recorded in meta.json are run through trymutant.py; the result is printed and
written to /verif/.work/reseed.json (meta.json is not modified). A patch that no longer applies to /repo HEAD (a later
fix: commit touched the same lines) is reported as such."""
import glob, json, os, re, subprocess, sys
from concurrent.futures import ThreadPoolExecutor

args = sys.argv[1:]
jobs = 4
if '-j' in args:
    i = args.index('-j'); jobs = int(args[i + 1]); del args[i:i + 2]
seeds = sorted(os.path.basename(d.rstrip('/')) for d in glob.glob('/verif/seeded/*/'))
if args:
    seeds = [s for s in seeds if s[:3] in args or s in args]

def one(s):
    meta = json.load(open(f'/verif/seeded/{s}/meta.json'))
    checks = list((meta.get('checks') or {s[:3]: None}).keys())
    r = subprocess.run(['python3', '/verif/tools/trymutant.py', f'/verif/seeded/{s}/patch.diff'] + checks, capture_output=True, text=True)
    out = r.stdout
    if 'PATCH DOES NOT APPLY' in out:
        return s, 'patch-does-not-apply', {}
    res = {}
    for c in checks:
        m = re.search(rf'== {c}: exit (\d+)', out)
        res[c] = int(m.group(1)) if m else None
    status = 'detected' if any(v == 1 for v in res.values()) else 'NOT-DETECTED'
    if any(v not in (0, 1) for v in res.values()):
        status += '(infra?)'
    return s, status, res

results = {}
with ThreadPoolExecutor(max_workers=jobs) as ex:
    for s, status, res in ex.map(one, seeds):
        results[s] = {'status': status, 'checks': res}
        print(s, status, res, flush=True)
json.dump(results, open('/verif/.work/reseed.json', 'w'), indent=1)
bad = [s for s, r in results.items() if not r['status'].startswith('detected')]
print('not detected / not applicable:', bad)
