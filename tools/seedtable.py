#!/usr/bin/env python3
"""Prints the markdown table of DESIGN.md 6.4 from /verif/seeded/*/meta.json."""
import glob, json, os, re

rows = []
for d in sorted(glob.glob('/verif/seeded/*/')):
    m = json.load(open(d + 'meta.json'))
    name = os.path.basename(d.rstrip('/'))
    files = [re.sub(r'\s*\|.*', '', f).strip().replace('.../', '…/') for f in m.get('files_changed', [])[:-1]]
    desc = m.get('needs_to_manifest', '').strip().splitlines()
    head = desc[0] if desc else ''
    head = re.sub(r'^(Change [a-d]\s*[:\-–—]?\s*)', '', head)[:150]
    det = []
    for c, v in (m.get('checks') or {}).items():
        if v.get('detected'):
            sig = (v.get('signatures') or [''])[0]
            det.append(f"{c}: `{sig[:90]}`")
        else:
            det.append(f"{c}: not detected")
    first = (m.get('earlier_results') or [None])[0]
    missed_first = bool(first) and not any(v.get('detected') for v in first.values())
    rows.append((name, ', '.join(os.path.basename(f) for f in files), head, '<br>'.join(det), 'missed at first' if missed_first else ''))

print('| change | files | what it is | reported by (quick tier) | |')
print('|---|---|---|---|---|')
for r in rows:
    print('| ' + ' | '.join(x.replace('|', '\\|') for x in r) + ' |')
