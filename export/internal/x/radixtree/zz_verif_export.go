//go:build verif

package radixtree

import (
	"fmt"
	"strings"
)

// VerifDump renders the complete private structure of the tree (node paths,
// child order, priorities, wildcard keys, values in order, backtracking flags).
func (n *Tree[V]) VerifDump(valueFn func(V) string) string {
	var sb strings.Builder

	n.verifDump(&sb, valueFn, 0)

	return sb.String()
}

func (n *Tree[V]) verifDump(sb *strings.Builder, valueFn func(V) string, depth int) {
	vals := make([]string, len(n.values))
	for i, v := range n.values {
		vals[i] = valueFn(v)
	}

	fmt.Fprintf(sb, "%s%q prio=%d wc=%v ca=%v keys=%v bt=%v vals=%v idx=%q\n", strings.Repeat(" ", depth), n.path,
		n.priority, n.isWildcard, n.isCatchAll, n.wildcardKeys, n.backtrackingEnabled, vals, string(n.staticIndices))

	for _, c := range n.staticChildren {
		c.verifDump(sb, valueFn, depth+1)
	}

	if n.wildcardChild != nil {
		sb.WriteString(strings.Repeat(" ", depth+1) + "[wildcard]\n")
		n.wildcardChild.verifDump(sb, valueFn, depth+1)
	}

	if n.catchAllChild != nil {
		sb.WriteString(strings.Repeat(" ", depth+1) + "[catchall]\n")
		n.catchAllChild.verifDump(sb, valueFn, depth+1)
	}
}
