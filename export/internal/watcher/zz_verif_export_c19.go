//go:build verif

package watcher

import (
	"context"

	"github.com/rs/zerolog"
)

// VerifC19NewStartedWatcher creates the real fsnotify based watcher and starts its loop
// (what Module does with secrets_reload_enabled).
func VerifC19NewStartedWatcher(logger zerolog.Logger) (Watcher, func(), error) {
	w, err := newWatcher(logger)
	if err != nil {
		return nil, nil, err
	}

	w.start(context.Background())

	return w, func() { _ = w.stop(context.Background()) }, nil
}
