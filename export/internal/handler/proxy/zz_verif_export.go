//go:build verif

package proxy

import (
	"net/http"

	"github.com/rs/zerolog"

	"github.com/dadrus/heimdall/internal/cache"
	"github.com/dadrus/heimdall/internal/config"
	"github.com/dadrus/heimdall/internal/rules/rule"
)

// VerifNewService is the private newService of this package.
func VerifNewService(conf *config.Configuration, cch cache.Cache, log zerolog.Logger, exec rule.Executor) *http.Server {
	return newService(conf, cch, log, exec)
}
