//go:build verif

package grpcv3

import (
	"github.com/rs/zerolog"
	"google.golang.org/grpc"

	"github.com/dadrus/heimdall/internal/cache"
	"github.com/dadrus/heimdall/internal/config"
	"github.com/dadrus/heimdall/internal/rules/rule"
)

// VerifNewService is the private newService of this package.
func VerifNewService(conf *config.Configuration, cch cache.Cache, log zerolog.Logger, exec rule.Executor) *grpc.Server {
	return newService(conf, cch, log, exec)
}
