//go:build verif

package management

import (
	"net/http"

	"github.com/dadrus/heimdall/internal/handler/middleware/http/errorhandler"
	"github.com/dadrus/heimdall/internal/keyholder"
)

func VerifNewManagementHandler(khr keyholder.Registry, eh errorhandler.ErrorHandler) http.Handler {
	return newManagementHandler(khr, eh)
}
