//go:build verif

package redis

import "github.com/rs/zerolog"

// VerifC19FileCredentials gives the C19 check access to the hot reloaded redis credentials file handling.
type VerifC19FileCredentials struct{ c *fileCredentials }

// VerifC19NewFileCredentials does what the configuration decoder does for `credentials: { path: ... }`.
func VerifC19NewFileCredentials(path string) (*VerifC19FileCredentials, error) {
	c := &fileCredentials{Path: path}
	if err := c.load(); err != nil {
		return nil, err
	}

	return &VerifC19FileCredentials{c}, nil
}

// OnChanged is the watcher callback.
func (v *VerifC19FileCredentials) OnChanged(l zerolog.Logger) { v.c.OnChanged(l) }

// Get is what the redis client calls (on its own goroutines) whenever it opens a connection.
func (v *VerifC19FileCredentials) Get() (string, string) {
	a := v.c.get()

	return a.Username, a.Password
}
