//go:build verif

package config

import (
	"os"

	"github.com/go-viper/mapstructure/v2"

	"github.com/dadrus/heimdall/internal/config/parser"
)

// VerifC20NewConfigurationWithoutSchema is NewConfiguration without the JSON
// schema validation of the file (parser.WithConfigValidator is the only option
// left out; decode hooks, prefix, default file name and lookup directories are the
// same). Check C20 uses it to learn what the loader itself supports for a file
// that the schema refuses, so that "schema accepts" and "loader supports" can be
// told apart.
func VerifC20NewConfigurationWithoutSchema(envPrefix EnvVarPrefix, configFile ConfigurationPath) (*Configuration, error) {
	result := defaultConfig()

	opts := []parser.Option{
		parser.WithDecodeHookFunc(mapstructure.StringToTimeDurationHookFunc()),
		parser.WithDecodeHookFunc(mapstructure.StringToSliceHookFunc(",")),
		parser.WithDecodeHookFunc(StringToByteSizeHookFunc()),
		parser.WithDecodeHookFunc(logLevelDecodeHookFunc),
		parser.WithDecodeHookFunc(logFormatDecodeHookFunc),
		parser.WithDecodeHookFunc(DecodeTLSCipherSuiteHookFunc),
		parser.WithDecodeHookFunc(DecodeTLSMinVersionHookFunc),
		parser.WithEnvPrefix(string(envPrefix)),
		parser.WithDefaultConfigFilename("heimdall.yaml"),
		parser.WithConfigFile(string(configFile)),
	}

	pwd, err := os.Getwd()
	if err == nil {
		opts = append(opts, parser.WithConfigLookupDir(pwd))
	}

	homeDir, err := os.UserHomeDir()
	if err == nil {
		opts = append(opts, parser.WithConfigLookupDir(homeDir+"/.config/"))
	}

	opts = append(opts, parser.WithConfigLookupDir("/etc/heimdall/"))

	err = parser.New(opts...).Load(&result)

	return &result, err
}

// VerifC20DefaultConfig is defaultConfig(): the value every load starts from.
func VerifC20DefaultConfig() Configuration { return defaultConfig() }
