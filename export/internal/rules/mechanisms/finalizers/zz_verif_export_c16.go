//go:build verif

package finalizers

import "github.com/dadrus/heimdall/internal/watcher"

// VerifC16NewJWTSigner is newJWTSigner.
func VerifC16NewJWTSigner(conf *SignerConfig, fw watcher.Watcher) (*jwtSigner, error) { //nolint:revive
	return newJWTSigner(conf, fw)
}

// VerifC16NewJWTFinalizer is newJWTFinalizer.
func VerifC16NewJWTFinalizer(ctx CreationContext, id string, conf map[string]any) (Finalizer, error) {
	return newJWTFinalizer(ctx, id, conf)
}

// VerifC16SignerOf returns the signer of a jwt finalizer (for reload injection).
func VerifC16SignerOf(f Finalizer) *jwtSigner { return f.(*jwtFinalizer).signer } //nolint:revive,forcetypeassert

// VerifC16LockState renders the model state of the signer's lock (sched builds only use it for diagnostics).
func (s *jwtSigner) VerifC16KeyID() string { return s.jwk.KeyID }
