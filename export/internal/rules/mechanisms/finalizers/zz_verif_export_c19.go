//go:build verif

package finalizers

import "github.com/dadrus/heimdall/internal/watcher"

// VerifC19NewJWTSigner is newJWTSigner (construction, first load and watcher registration).
// The returned value offers Sign, Keys, Hash and OnChanged.
func VerifC19NewJWTSigner(conf *SignerConfig, fw watcher.Watcher) (*jwtSigner, error) { //nolint:revive
	return newJWTSigner(conf, fw)
}
