//go:build verif

package cloudblob

import (
	"context"
	"net/url"

	"github.com/rs/zerolog"

	"github.com/dadrus/heimdall/internal/config"
	"github.com/dadrus/heimdall/internal/rules/rule"
)

type VerifC18Handle struct {
	p   *provider
	ctx context.Context //nolint:containedctx
	eps []*ruleSetEndpoint
}

// VerifC18CheckConfig runs the real constructor on the configuration (scheduler
// created, never started, shut down again).
func VerifC18CheckConfig(conf *config.Configuration, processor rule.SetProcessor, logger zerolog.Logger) error {
	prov, err := newProvider(conf, processor, logger)
	if err != nil {
		return err
	}

	prov.cancel()

	return prov.s.Shutdown()
}

// VerifC18New builds a provider with the real bucket endpoints for the given URLs.
func VerifC18New(processor rule.SetProcessor, logger zerolog.Logger, urls []string, prefixes []string,
) (*VerifC18Handle, error) {
	logger = logger.With().Str("_provider_type", "cloud_blob").Logger()

	h := &VerifC18Handle{
		p:   &provider{p: processor, l: logger, configured: true},
		ctx: logger.WithContext(context.Background()),
	}

	for i, raw := range urls {
		u, err := url.Parse(raw)
		if err != nil {
			return nil, err
		}

		h.eps = append(h.eps, &ruleSetEndpoint{URL: u, Prefix: prefixes[i]})
	}

	return h, nil
}

func (h *VerifC18Handle) BucketIDs() []string {
	out := make([]string, len(h.eps))
	for i, e := range h.eps {
		out[i] = e.ID()
	}

	return out
}

func (h *VerifC18Handle) Poll(i int) error { return h.p.watchChanges(h.ctx, h.eps[i]) }

// PollWith runs one tick with an arbitrary fetcher (scripted fetcher mode).
func (h *VerifC18Handle) PollWith(f RuleSetFetcher) error { return h.p.watchChanges(h.ctx, f) }

// States returns bucket id -> rule set source -> remembered hash.
func (h *VerifC18Handle) States() map[string]map[string][]byte {
	out := map[string]map[string][]byte{}

	h.p.states.Range(func(key, value any) bool {
		m := map[string][]byte{}
		for k, v := range value.(BucketState) { //nolint:forcetypeassert
			m[k] = append([]byte{}, v...)
		}

		out[key.(string)] = m //nolint:forcetypeassert

		return true
	})

	return out
}

// VerifC18Scheduled is a provider built by the real constructor (real gocron scheduler, jobs as in production).
type VerifC18Scheduled struct{ p *provider }

func VerifC18NewScheduled(conf *config.Configuration, processor rule.SetProcessor, logger zerolog.Logger) (*VerifC18Scheduled, error) {
	p, err := newProvider(conf, processor, logger)
	if err != nil {
		return nil, err
	}

	return &VerifC18Scheduled{p}, nil
}

func (s *VerifC18Scheduled) Start() error { return s.p.Start(context.Background()) }
func (s *VerifC18Scheduled) Stop() error  { return s.p.Stop(context.Background()) }
