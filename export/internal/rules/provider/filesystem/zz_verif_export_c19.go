//go:build verif

package filesystem

import "github.com/fsnotify/fsnotify"

// VerifC19RuleSetsChanged is the body of the watchFiles loop for one event: what the
// provider goroutine runs (without recovery) for every file system event.
func (p *Provider) VerifC19RuleSetsChanged(evt fsnotify.Event) error {
	err := p.ruleSetsChanged(evt)
	if err != nil {
		p.l.Warn().Err(err).Str("_src", evt.Name).Msg("Failed to apply rule set changes")
	}

	return err
}
