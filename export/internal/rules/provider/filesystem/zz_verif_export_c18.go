//go:build verif

package filesystem

import (
	"fmt"

	"github.com/fsnotify/fsnotify"
)

// VerifC18RuleSetsChanged invokes the private watcher callback exactly as watchFiles does.
func (p *Provider) VerifC18RuleSetsChanged(evt fsnotify.Event) error { return p.ruleSetsChanged(evt) }

// VerifC18States returns the provider's remembered hash per source.
func (p *Provider) VerifC18States() map[string][]byte {
	out := map[string][]byte{}

	p.states.Range(func(key, value any) bool {
		if b, ok := value.([]byte); ok {
			out[key.(string)] = append([]byte{}, b...) //nolint:forcetypeassert
		} else {
			// the remembered state is private: render whatever is kept there
			out[key.(string)] = []byte(fmt.Sprintf("%v", value)) //nolint:forcetypeassert
		}

		return true
	})

	return out
}
