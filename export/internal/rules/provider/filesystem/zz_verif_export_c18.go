//go:build verif

package filesystem

import (
	"github.com/fsnotify/fsnotify"
)

// VerifC18RuleSetsChanged invokes the private watcher callback exactly as watchFiles does.
func (p *Provider) VerifC18RuleSetsChanged(evt fsnotify.Event) error { return p.ruleSetsChanged(evt) }

// VerifC18States returns the provider's remembered hash per source.
func (p *Provider) VerifC18States() map[string][]byte {
	out := map[string][]byte{}

	p.states.Range(func(key, value any) bool {
		out[key.(string)] = append([]byte{}, value.([]byte)...) //nolint:forcetypeassert

		return true
	})

	return out
}
