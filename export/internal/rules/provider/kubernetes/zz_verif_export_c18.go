//go:build verif

package kubernetes

import (
	"github.com/rs/zerolog"
	"k8s.io/client-go/tools/cache"

	"github.com/dadrus/heimdall/internal/config"
	"github.com/dadrus/heimdall/internal/rules/rule"
)

// VerifC18Handle is a real provider plus the event handler wiring of newController
// (FilteringResourceEventHandler over filter/addRuleSet/updateRuleSet/deleteRuleSet).
type VerifC18Handle struct {
	p *provider
	h cache.FilteringResourceEventHandler
}

func VerifC18New(
	logger zerolog.Logger, conf *config.Configuration, k8sCF ConfigFactory, processor rule.SetProcessor, factory rule.Factory,
) (*VerifC18Handle, error) {
	p, err := newProvider(logger, conf, k8sCF, processor, factory)
	if err != nil {
		return nil, err
	}

	return &VerifC18Handle{
		p: p,
		h: cache.FilteringResourceEventHandler{
			FilterFunc: p.filter,
			Handler: cache.ResourceEventHandlerFuncs{
				AddFunc:    p.addRuleSet,
				DeleteFunc: p.deleteRuleSet,
				UpdateFunc: p.updateRuleSet,
			},
		},
	}, nil
}

func (h *VerifC18Handle) OnAdd(obj any)            { h.h.OnAdd(obj, false) }
func (h *VerifC18Handle) OnUpdate(oldObj, obj any) { h.h.OnUpdate(oldObj, obj) }
func (h *VerifC18Handle) OnDelete(obj any)         { h.h.OnDelete(obj) }
func (h *VerifC18Handle) AuthClass() string        { return h.p.ac }
func (h *VerifC18Handle) InstanceID() string       { return h.p.id }
func (h *VerifC18Handle) Stopped() bool            { return h.p.stopped }
