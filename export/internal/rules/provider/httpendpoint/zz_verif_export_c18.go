//go:build verif

package httpendpoint

import (
	"context"
	"fmt"
	"time"

	"github.com/rs/zerolog"

	"github.com/dadrus/heimdall/internal/cache"
	"github.com/dadrus/heimdall/internal/config"
	"github.com/dadrus/heimdall/internal/rules/rule"
	"github.com/dadrus/heimdall/internal/validation"
)

// VerifC18Handle is a provider instance together with the endpoints and the
// context which newProvider hands to the scheduler jobs.
type VerifC18Handle struct {
	p   *provider
	ctx context.Context //nolint:containedctx
	eps []*ruleSetEndpoint
}

func verifC18Endpoints(conf *config.Configuration) ([]*ruleSetEndpoint, error) {
	type Config struct {
		Endpoints     []*ruleSetEndpoint `mapstructure:"endpoints"      validate:"required,gt=0,dive"`
		WatchInterval *time.Duration     `mapstructure:"watch_interval"`
	}

	var providerConf Config
	if err := decodeConfig(conf.Providers.HTTPEndpoint, &providerConf); err != nil {
		return nil, err
	}

	if err := validation.ValidateStruct(&providerConf); err != nil {
		return nil, err
	}

	for _, ep := range providerConf.Endpoints {
		ep.init()
	}

	return providerConf.Endpoints, nil
}

// VerifC18New builds a provider. With real=true the real constructor is used (a
// gocron scheduler is created and shut down again, it is never started); otherwise
// the same struct is filled directly (the scheduler is not part of what
// watchChanges touches).
func VerifC18New(
	conf *config.Configuration, cch cache.Cache, processor rule.SetProcessor, logger zerolog.Logger, real bool,
) (*VerifC18Handle, error) {
	eps, err := verifC18Endpoints(conf)
	if err != nil {
		return nil, err
	}

	var prov *provider

	if real {
		prov, err = newProvider(conf, cch, processor, logger)
		if err != nil {
			return nil, err
		}
	} else {
		prov = &provider{
			p:          processor,
			l:          logger.With().Str("_provider_type", "http_endpoint").Logger(),
			configured: true,
		}
	}

	ctx := logger.WithContext(cache.WithContext(context.Background(), cch))

	return &VerifC18Handle{p: prov, ctx: ctx, eps: eps}, nil
}

func (h *VerifC18Handle) Close() {
	if h.p.cancel != nil {
		h.p.cancel()
	}

	if h.p.s != nil {
		_ = h.p.s.Shutdown()
	}
}

func (h *VerifC18Handle) Endpoints() []string {
	out := make([]string, len(h.eps))
	for i, e := range h.eps {
		out[i] = e.ID()
	}

	return out
}

func (h *VerifC18Handle) CacheEnabled(i int) bool {
	return h.eps[i].HTTPCache != nil && h.eps[i].HTTPCache.Enabled
}

// Poll runs one scheduler tick for endpoint i.
func (h *VerifC18Handle) Poll(i int) error { return h.p.watchChanges(h.ctx, h.eps[i]) }

func (h *VerifC18Handle) States() map[string][]byte {
	out := map[string][]byte{}

	h.p.states.Range(func(key, value any) bool {
		if b, ok := value.([]byte); ok {
			out[key.(string)] = append([]byte{}, b...) //nolint:forcetypeassert
		} else {
			out[key.(string)] = []byte(fmt.Sprintf("%v", value)) //nolint:forcetypeassert
		}

		return true
	})

	return out
}
