//go:build verif

package rules

import (
	"fmt"
	"strings"

	"github.com/dadrus/heimdall/internal/rules/rule"
)

func VerifNewRepository(f rule.Factory) rule.Repository    { return newRepository(f) }
func VerifNewRuleExecutor(r rule.Repository) rule.Executor { return newRuleExecutor(r) }

// VerifRepoDump renders the private state of the repository: known rules in
// order and the complete tree structure.
func VerifRepoDump(r rule.Repository) string {
	repo := r.(*repository) //nolint:forcetypeassert

	var sb strings.Builder

	sb.WriteString("known:")

	for _, kr := range repo.knownRules {
		if kr == nil {
			sb.WriteString(" <nil rule>")

			continue
		}

		fmt.Fprintf(&sb, " %s@%s#%x", kr.ID(), kr.SrcID(), kr.(*ruleImpl).hash[:4]) //nolint:forcetypeassert
	}

	sb.WriteString("\n")
	sb.WriteString(repo.index.VerifDump(func(rt rule.Route) string {
		if rt == nil {
			return "<nil route>"
		}

		ri := rt.Rule().(*ruleImpl) //nolint:forcetypeassert

		return fmt.Sprintf("%s@%s#%x", ri.id, ri.srcID, ri.hash[:4])
	}))

	return sb.String()
}

// VerifRuleHash exposes the definition hash of a rule.
func VerifRuleHash(r rule.Rule) []byte { return r.(*ruleImpl).hash } //nolint:forcetypeassert
