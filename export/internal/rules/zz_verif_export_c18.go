//go:build verif

package rules

import (
	"github.com/dadrus/heimdall/internal/rules/rule"
)

// VerifC18Known lists (rule id, source id, definition hash) of every rule the repository holds, in order.
func VerifC18Known(r rule.Repository) [][3]string {
	repo := r.(*repository) //nolint:forcetypeassert

	out := make([][3]string, 0, len(repo.knownRules))

	for _, kr := range repo.knownRules {
		out = append(out, [3]string{kr.ID(), kr.SrcID(), string(kr.(*ruleImpl).hash)}) //nolint:forcetypeassert
	}

	return out
}
