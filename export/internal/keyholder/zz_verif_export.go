//go:build verif

package keyholder

func VerifNewRegistry() Registry { return newRegistry() }
