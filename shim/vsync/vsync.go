// Package vsync provides drop-in replacements for sync.Mutex and sync.RWMutex
// whose operations are scheduling points of vsched. Outside a controlled
// execution they delegate to the real primitives.
package vsync

import (
	"sync"

	"github.com/dadrus/heimdall/internal/x/verifshim/vsched"
)

type Mutex struct {
	real   sync.Mutex
	locked bool
	id     int
}

func (m *Mutex) CanLock() bool  { return !m.locked }
func (m *Mutex) CanRLock() bool { return !m.locked }
func (m *Mutex) LockID() int    { return m.id }

// Held reports the model state (for state fingerprints).
func (m *Mutex) Held() bool { return m.locked }

func (m *Mutex) Lock() {
	if vsched.LockPoint(vsched.OpLock, m, "Mutex.Lock") {
		if m.locked {
			panic("vsync: Lock resumed on a held mutex")
		}

		m.locked = true

		return
	}

	m.real.Lock()
}

func (m *Mutex) Unlock() {
	if vsched.LockPoint(vsched.OpUnlock, m, "Mutex.Unlock") {
		if !m.locked {
			panic("sync: unlock of unlocked mutex")
		}

		m.locked = false

		return
	}

	m.real.Unlock()
}

type RWMutex struct {
	real    sync.RWMutex
	writer  bool
	readers int
	id      int
}

func (m *RWMutex) CanLock() bool  { return !m.writer && m.readers == 0 }
func (m *RWMutex) CanRLock() bool { return !m.writer }
func (m *RWMutex) LockID() int    { return m.id }

// Held reports the model state (for state fingerprints).
func (m *RWMutex) Held() (bool, int) { return m.writer, m.readers }

func (m *RWMutex) Lock() {
	if vsched.LockPoint(vsched.OpLock, m, "RWMutex.Lock") {
		if !m.CanLock() {
			panic("vsync: Lock resumed on a held rwmutex")
		}

		m.writer = true

		return
	}

	m.real.Lock()
}

func (m *RWMutex) Unlock() {
	if vsched.LockPoint(vsched.OpUnlock, m, "RWMutex.Unlock") {
		if !m.writer {
			panic("sync: Unlock of unlocked RWMutex")
		}

		m.writer = false

		return
	}

	m.real.Unlock()
}

func (m *RWMutex) RLock() {
	if vsched.LockPoint(vsched.OpRLock, m, "RWMutex.RLock") {
		if m.writer {
			panic("vsync: RLock resumed on a write-held rwmutex")
		}

		m.readers++

		return
	}

	m.real.RLock()
}

func (m *RWMutex) RUnlock() {
	if vsched.LockPoint(vsched.OpRUnlock, m, "RWMutex.RUnlock") {
		if m.readers == 0 {
			panic("sync: RUnlock of unlocked RWMutex")
		}

		m.readers--

		return
	}

	m.real.RUnlock()
}
