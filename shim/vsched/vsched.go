// Package vsched is a cooperative, fully controlled scheduler for a handful of
// harness threads. It is injected into the heimdall tree by `go build -overlay`
// (see /verif/DESIGN.md 2.4) and is never part of a normal build.
//
// Exactly one managed thread runs at a time. Control returns to the scheduler at
// every Yield (inserted by the instrumenter before every statement of the files
// under test) and at every vsync lock operation. The scheduler asks a Chooser
// which enabled thread runs next, so an explorer can enumerate schedules.
package vsched

import (
	"fmt"
	"runtime/debug"
	"sync/atomic"
	_ "unsafe" // go:linkname
)

// OpKind describes what a thread is about to do when it hands control back.
type OpKind uint8

const (
	OpYield OpKind = iota
	OpLock
	OpRLock
	OpUnlock
	OpRUnlock
	OpStart
)

func (k OpKind) String() string {
	return [...]string{"yield", "lock", "rlock", "unlock", "runlock", "start"}[k]
}

// Lockable is implemented by vsync mutexes so that the scheduler can decide
// whether a pending lock operation is enabled.
type Lockable interface {
	CanLock() bool
	CanRLock() bool
	LockID() int
}

type Thread struct {
	goid     uint64
	ID       int
	Name     string
	wake     chan struct{}
	finished bool
	started  bool
	op       OpKind
	loc      string
	lock     Lockable
	steps    int
	panicVal any
	panicStk string
}

// Point is one scheduling decision.
type Point struct {
	Enabled []int // thread ids in canonical order (running thread first if still enabled)
	Chosen  int   // index into Enabled
	Running int   // id of the thread that ran before this point (-1 at start)
	// RunningEnabled tells whether the previously running thread was still enabled,
	// i.e. whether choosing somebody else is a preemption.
	RunningEnabled bool
	Locs           []string // pending location of each enabled thread
	Ops            []OpKind // pending operation of each enabled thread
}

// Chooser picks the index into p.Enabled of the thread to run.
type Chooser func(idx int, p *Point) int

type Outcome struct {
	Points    []Point
	Deadlock  bool
	Horizon   bool
	Panics    []string
	Blocked   []string // description of blocked threads on deadlock
	StepCount int
}

type Sched struct {
	threads []*Thread
	current *Thread
	yielded chan struct{}
	horizon int
	lockSeq int
	// StateHook, when set, is called at every scheduling point with the ids of
	// enabled threads; it may return true to stop the execution early (used for
	// state-hash pruning).
	StateHook func(s *Sched) bool
	Pruned    bool
}

var active atomic.Pointer[Sched]

// Active returns the scheduler controlling the current execution, or nil.
func Active() *Sched { return active.Load() }

func New(horizon int) *Sched {
	return &Sched{yielded: make(chan struct{}), horizon: horizon}
}

// Go registers a thread. It starts running only when the scheduler picks it.
func (s *Sched) Go(name string, body func()) {
	t := &Thread{ID: len(s.threads), Name: name, wake: make(chan struct{}), op: OpStart, loc: name + ":start"}
	s.threads = append(s.threads, t)

	go func() {
		t.goid = goid()

		<-t.wake

		defer func() {
			if r := recover(); r != nil {
				if _, ok := r.(abortExecution); !ok {
					t.panicVal = r
					t.panicStk = string(debug.Stack())
				}
			}

			t.finished = true
			s.yielded <- struct{}{}
		}()

		body()
	}()
}

type abortExecution struct{}

func (s *Sched) NextLockID() int { s.lockSeq++; return s.lockSeq }

func (s *Sched) enabled(t *Thread) bool {
	if t.finished {
		return false
	}

	switch t.op {
	case OpLock:
		return t.lock.CanLock()
	case OpRLock:
		return t.lock.CanRLock()
	default:
		return true
	}
}

// Threads exposes thread state to state hooks.
func (s *Sched) Threads() []*Thread { return s.threads }

func (t *Thread) Loc() string    { return t.loc }
func (t *Thread) Finished() bool { return t.finished }
func (t *Thread) Op() OpKind     { return t.op }

// Run executes all registered threads to completion under the chooser.
func (s *Sched) Run(choose Chooser) *Outcome {
	out := &Outcome{}

	if !active.CompareAndSwap(nil, s) {
		panic("vsched: another scheduler is active")
	}
	defer active.Store(nil)

	running := -1

	for {
		var en []int

		runningEnabled := false

		if running >= 0 && s.enabled(s.threads[running]) {
			en = append(en, running)
			runningEnabled = true
		}

		allFinished := true

		for _, t := range s.threads {
			if !t.finished {
				allFinished = false
			}

			if t.ID != running && s.enabled(t) {
				en = append(en, t.ID)
			}
		}

		if allFinished {
			break
		}

		if len(en) == 0 {
			out.Deadlock = true

			for _, t := range s.threads {
				if !t.finished {
					out.Blocked = append(out.Blocked, fmt.Sprintf("%s blocked on %s at %s", t.Name, t.op, t.loc))
				}
			}

			break
		}

		if out.StepCount >= s.horizon {
			out.Horizon = true

			break
		}

		if s.StateHook != nil && s.StateHook(s) {
			s.Pruned = true

			break
		}

		p := Point{Enabled: en, Running: running, RunningEnabled: runningEnabled}
		for _, id := range en {
			p.Locs = append(p.Locs, s.threads[id].loc)
			p.Ops = append(p.Ops, s.threads[id].op)
		}

		p.Chosen = choose(len(out.Points), &p)
		if p.Chosen < 0 || p.Chosen >= len(en) {
			panic(fmt.Sprintf("vsched: chooser returned %d for %d enabled threads (replay diverged)", p.Chosen, len(en)))
		}

		out.Points = append(out.Points, p)
		out.StepCount++

		t := s.threads[en[p.Chosen]]
		running = t.ID
		s.current = t
		t.steps++
		t.wake <- struct{}{}
		<-s.yielded
		s.current = nil
	}

	for _, t := range s.threads {
		if t.panicVal != nil {
			out.Panics = append(out.Panics, fmt.Sprintf("%s: %v\n%s", t.Name, t.panicVal, t.panicStk))
		}
	}

	// Threads that never finished (deadlock, horizon, pruning) are released with an
	// abort panic so their goroutines do not accumulate.
	if out.Deadlock || out.Horizon || s.Pruned {
		s.abortRest()
	}

	return out
}

func (s *Sched) abortRest() {
	for _, t := range s.threads {
		if t.finished {
			continue
		}

		s.current = t
		t.op = OpYield
		aborting.Store(true)
		t.wake <- struct{}{}
		<-s.yielded
		aborting.Store(false)
		s.current = nil
	}
}

var aborting atomic.Bool

// handOver gives control back to the scheduler and waits to be resumed.
func (s *Sched) handOver(t *Thread, op OpKind, loc string, l Lockable) {
	t.op, t.loc, t.lock = op, loc, l
	s.yielded <- struct{}{}
	<-t.wake

	if aborting.Load() {
		panic(abortExecution{})
	}
}

// Yield is a scheduling point. Outside a controlled execution it does nothing.
func Yield(loc string) {
	s := active.Load()
	if s == nil {
		return
	}

	t := s.current
	if t == nil {
		return
	}

	if aborting.Load() {
		// deferred calls of an aborted thread must not block again
		return
	}

	notForeign(t, loc)
	s.handOver(t, OpYield, loc, nil)
}

// LockPoint is called by vsync before a lock operation. It returns true when a
// scheduler is controlling the calling thread (the mutex then only has to
// update its model state).
func LockPoint(op OpKind, l Lockable, loc string) bool {
	s := active.Load()
	if s == nil {
		return false
	}

	t := s.current
	if t == nil {
		return false
	}

	if aborting.Load() {
		return true
	}

	notForeign(t, loc)
	s.handOver(t, op, loc, l)

	return true
}

//go:linkname goid runtime.verifGoid
func goid() uint64

// notForeign stops the process when a goroutine that is not the running thread of the scheduler reaches a scheduling
// point: the code under test started goroutines of its own inside a controlled execution, which the scheduler does not
// model (their interleavings would not be explored and their lock operations would be taken for the running thread's).
func notForeign(t *Thread, loc string) {
	if t.goid != 0 && goid() != t.goid {
		panic("vsched: a goroutine started by the code under test reached the scheduling point " + loc +
			" inside a controlled execution; goroutines other than the scheduler's threads are not modelled")
	}
}
